#!/bin/bash
# refresh go.sum of harness module $1 from the target repo modules (offline; nothing is fetched)
HERE="$(cd "$(dirname "$0")/.." && pwd)"
case "$1" in
  x) SRC="/repo/x/go/go.sum";;
  core) SRC="/repo/core/go.sum";;
  cesium) SRC="/repo/cesium/go.sum";;
  aspen) SRC="/repo/aspen/go.sum";;
  freighter) SRC="/repo/freighter/go/go.sum /repo/freighter/integration/go.sum";;
  arc) SRC="/repo/arc/go/go.sum";;
esac
cat $SRC 2>/dev/null | sort -u > "$HERE/harness/$1/go.sum"
