#!/bin/bash
# (re)generates go.mod/go.sum of harness module $1 from the target repo module: same
# requirement set as the target (so MVS picks the versions in the offline module cache),
# relative replaces made absolute, plus the target itself and verifkit. Nothing is fetched.
HERE="$(cd "$(dirname "$0")/.." && pwd)"
case "$1" in
  x) T=/repo/x/go; P=github.com/synnaxlabs/x;;
  core) T=/repo/core; P=github.com/synnaxlabs/synnax;;
  cesium) T=/repo/cesium; P=github.com/synnaxlabs/cesium;;
  aspen) T=/repo/aspen; P=github.com/synnaxlabs/aspen;;
  freighter) T=/repo/freighter/go; P=github.com/synnaxlabs/freighter;;
  arc) T=/repo/arc/go; P=github.com/synnaxlabs/arc;;
  *) echo "unknown harness module $1" >&2; exit 2;;
esac
D="$HERE/harness/$1"
python3 - "$T" "$P" "$D" "$HERE" <<'PY'
import sys, re, os
T, P, D, HERE = sys.argv[1:]
src = open(os.path.join(T, "go.mod")).read()
src = re.sub(r'^module .*$', 'module %s/zverif' % P, src, count=1, flags=re.M)
def absrep(m):
    return m.group(1) + os.path.normpath(os.path.join(T, m.group(2)))
src = re.sub(r'(=>\s*)(\.\.?/[^\s]*)', absrep, src)
src += "\nrequire %s v0.0.0\nrequire verifkit v0.0.0\nreplace %s => %s\nreplace verifkit => %s/kit\n" % (P, P, T, HERE)
extra = os.path.join(D, "go.mod.extra")
if os.path.exists(extra):
    src += open(extra).read()
old = None
try: old = open(os.path.join(D, "go.mod")).read()
except FileNotFoundError: pass
if old != src:
    open(os.path.join(D, "go.mod"), "w").write(src)
sums = set()
for f in [os.path.join(T, "go.sum"), "/repo/freighter/integration/go.sum" if P.endswith("freighter") else None]:
    if f and os.path.exists(f):
        sums.update(l for l in open(f).read().splitlines() if l.strip())
open(os.path.join(D, "go.sum"), "w").write("\n".join(sorted(sums)) + "\n")
PY
