#!/usr/bin/env python3
"""Regenerates MANIFEST.json from the table below (keeps it schema-valid at all times)."""
import json, os, subprocess
HERE = os.path.dirname(os.path.dirname(os.path.abspath(__file__)))

CHECKS = {
 "C17": dict(level="model_checking", engine="seqx",
   technique="explicit-state BFS over the real gorp.Table transition function, index-vs-scan differential + reference model in every state",
   text="Every op sequence (set/update/delete on the bare DB and in two interleaved transactions, commit/abort in any order, replicated writes through the kv observer, table reopen/bulk populate) up to the depth bound over 2-3 colliding keys and 2 indexed values is executed on the real gorp.Table; in every distinct state ~800 filter trees are evaluated through the secondary indexes and through a full scan in every transactional view and compared with a map-based model. Exhaustive within the stated alphabet and depth.",
   note="memkv (in-memory pebble) as storage; go1.26.8 instead of the repo's go1.26.3 toolchain; state merging on (committed rows, per-tx overlays) is sound because every query result is re-derived from the real objects in each new state; true parallel commits are not explored (operation-granularity interleaving only).",
   design="3/C17"),
 "C16": dict(level="model_checking", engine="seqx",
   technique="explicit-state BFS over the real ontology writer/retriever with a graph reference model; both directions of the define-relationship iff judged",
   text="Every sequence of define/delete resource, define/delete relationship (all ordered pairs incl. self-edges), delete-many and one-to-many, each executed directly, in a committed and in an aborted transaction (plus multi-op transactions), over identifiers that are string prefixes/suffixes of one another, up to the depth bound; after every step the raw tables equal the model, the graph is acyclic and parent/child/2-hop/descendant traversals equal a plain graph search in the committed view and in the open transaction.",
   note="memkv storage; go1.26.8 toolchain; relationship types share one graph for cycle detection (what the implementation's descendant walk does); a fatal runtime error of the code under test is caught by the re-exec supervisor and replayed.",
   design="3/C16"),
 "C18": dict(level="model_checking", engine="seqx",
   technique="explicit-state BFS over the real rbac.Service stack with a set-based reference; every request enforced after every step (biconditional)",
   text="Every sequence of create/delete role, create/delete policy, attach, assign/unassign (directly or inside multi-op transactions that commit or abort) up to the depth bound, from the empty and from a seeded configuration; after every step every request in {2 subjects, unknown subject} x {retrieve, delete} x object lists of length 1-2 (covered by type, by identity, same key under another type, key extending a covered key, uncovered) is enforced in the committed view and inside the open transaction and compared with the reference in both directions; RetrievePoliciesForSubject equals the model as a set.",
   note="memkv storage; go1.26.8 toolchain; an accepted attach/assign of a missing role or policy is taken at its word (recorded, grants nothing until both ends exist); depth-bounded, not a fixpoint.",
   design="3/C18"),
 "C03": dict(level="model_checking", engine="seqx",
   technique="explicit-state BFS over the real domain.DB (writers, commits, deletes, reopen) with an interval reference model; invariants on the real pointer list after every step",
   text="Every sequence of open-writer(start, optional preset end incl. adjacent and zero-length) / write+commit(end) / re-commit / close / delete[a,b) / reopen over 2-3 writers on one channel with timestamps from a 4-5 point grid, with and without file rollover and with lazy and immediate index persistence, from the empty database and from a two-domain layout, up to the depth bound. After every step the real pointer list (verif hook) and the iterator enumeration must be sorted, pairwise non-overlapping, inside their files and equal to the model with byte-identical content; an open inside data must fail; a commit that overlaps, moves backwards or is empty must fail with a validation error and leave the index untouched; an accepted commit must satisfy none of those.",
   note="in-memory xfs.MemFS; go1.26.8 toolchain; file rollover is observed (Writer.Start) rather than predicted; domain-level deletes are only issued on ranges no open writer has committed into (cesium's controller enforces that above this layer); legal commits that the code refuses are counted, not judged.",
   design="3/C03"),
 "C01": dict(level="model_checking", engine="seqx",
   technique="explicit-state BFS over write scripts on the real cesium.DB with a timestamp->value reference; full range-read sweep in every distinct state",
   text="Every write script up to the depth bound over sessions (index+data, index-only, data-only channel sets; start on or 1ns before a sample; chunks of 1-3 samples; commit points; auto-commit on/off; sessions placed before, between and after earlier data; two index groups; reopen) for five configurations (fixed 8-byte, 1-byte and variable-length data types; file-size caps that roll every commit, at different rhythms per channel, or never; immediate and close-time index persistence). In every distinct state every half-open read [a,b) with a,b in {0, t-1ns, t, t+1ns, max} is issued for every channel and must return exactly the committed samples in range, once, in order, byte-for-byte; the same after close and reopen.",
   note="in-memory xfs.MemFS; go1.26.8 toolchain; script steps the model considers legal but the engine refuses end that path (property speaks of successful writes); wall-clock index persistence covered as its two extremes; series time ranges/alignments are part of the canonical state but not judged.",
   design="3/C01"),
 "C04": dict(level="model_checking", engine="seqx",
   technique="explicit-state BFS over delete/GC/reopen/write histories on the real cesium.DB from several stored layouts, reference map with deleted timestamps removed, full read sweep in every state",
   text="From five stored layouts (one domain; contiguous rolled-over domains; a data domain spanning several index domains; gapped sessions; back-filled sessions sharing data files) every history up to the depth bound of delete(channel set, [a,b)) with bounds on / 1ns before / 1ns after samples and beyond the data, synchronous GC passes (through the verif hook, also after a reopen so that sub-cap files are collectable), reopen, and new write sessions into holes. After every step every half-open read over {0,t-1ns,t,t+1ns,max} of every channel must equal the reference minus the deleted timestamps; un-named channels untouched; an index delete must be refused while an un-named dependant has samples in range; GC must change no read.",
   note="in-memory xfs.MemFS; go1.26.8 toolchain; deletes only while no writer is open; deletes the engine refuses although legal are counted as observations (state must be unchanged or per-channel exactly deleted), not judged; file sizes recorded, not judged.",
   design="3/C04"),
 "C10": dict(level="model_checking", engine="seqx",
   technique="explicit-state BFS over iterator command sequences on stored layouts built through the public API; per-step oracle Value()==samples in View(); exhaustive full traversals per span",
   text="For four (thorough: six) stored layouts (single domain, gapped domains, contiguous rolled-over domains, deletion cuts) x three channels (8-byte, index, variable-length) x bounds (unbounded; starting between samples and ending on a sample) x auto chunk sizes: every command sequence up to the depth bound over SeekFirst/SeekLast/SeekLE/SeekGE(15 positions)/Next/Prev(5 spans from 1ns to max)/Next/Prev(AutoSpan)/SetBounds; after every step the returned samples must equal the stored samples inside the reported view, consecutive same-direction views must be adjacent; plus every full forward/backward traversal per span must visit each sample in bounds exactly once.",
   note="in-memory xfs.MemFS; go1.26.8 toolchain; the unary iterator is driven directly (only it reports View()); a step that reports !Valid() offers no value and stale Value() content is not judged; after a failed seek or a sticky iterator error only seeks are issued; auto-span stepping has recorded known findings (KNOWN_FINDINGS.txt), identified by the shape of the disagreement.",
   design="3/C10"),
 "C02": dict(level="fault_enumeration", engine="crashx",
   technique="crash-point and torn-write enumeration: every prefix of the filesystem-mutation sequence of each script (crash-injecting xfs.FS), recovered with the real cesium.Open and read back in full",
   text="For each operation script (sessions with immediate / close-time index persistence, explicit commits, file rollover, two-session layouts, time-range deletes, GC passes incl. after reopen, back-filled files, channel create/rename/delete, reopen) the script is executed once per crash point k in [0, #mutating FS calls) and per torn variant (1, m/2, m-1, 26, 52 bytes) of every write; only the first k mutating calls (create, mkdir, write, write-at, truncate, rename, remove) reach the image. Each image is opened with cesium.Open and every channel is read back: Open must succeed and each channel must hold exactly its content after some operation between the last durably completed one and the one in flight.",
   note="process-crash model stated by the property (completed FS calls survive; no fsync); in-memory xfs.MemFS; go1.26.8 toolchain; the order of mutations inside one commit follows Go map iteration, so each crash index is taken in the run's own order and repeated (6x quick / 24x thorough); three recorded known findings (interrupted channel creation, in-place index rewrite, GC file swap) are identified by root cause from the mutation log.",
   design="3/C02"),
 "C05": dict(level="model_checking", engine="seqx",
   technique="explicit-state BFS over the real control.Controller (exclusive and shared) and over cesium writers, against a (authority desc, open order asc) reference; transfers folded into a reconstructed holder",
   text="Every sequence up to the depth bound (fixpoint for 2 subjects) of open(subject, authority in {0,1,255}, time range joining or creating one of two regions, optional error-on-unauthorized) / set-authority / release on the real control.Controller in exclusive and shared mode: after every step Authorize() of every live gate, LeadingState, the returned Transfer (exactly one iff the holder or its authority changed, naming previous and next holder) and the fold of all reported transfers must agree with the model holder (highest authority, ties to the earliest open). At engine level the same scripts through cesium writers on one channel group: the authorised flag of every Write and the subsequent Read must agree with the model (unauthorised writes have no effect).",
   note="sequential histories (the concurrent interleavings of these calls are explored by the schedx part once enabled; until then stated as not covered); opens that would bridge two regions are outside the alphabet; go1.26.8 toolchain.",
   design="3/C05"),
 "C12": dict(level="model_checking", engine="seqx",
   technique="explicit-state BFS over real store.Store + gossip.Gossip instances on an in-memory network; monotonicity invariant on every event, exhaustive closing round (all pair orders x initiator choices) from every reached state",
   text="Every sequence up to the depth bound of heartbeat ticks, pairwise exchanges (GossipOnceWith towards members the initiator knows), host state changes and restarts (Heartbeat.Restart) over 2-3 (thorough: 4) nodes starting from full, chain and star knowledge. After every event no observer's record of any member regresses, no record changes without a newer heartbeat, and every held (member, heartbeat) record equals what its host wrote (new generation supersedes the old). In every distinct reached state the closing round - every node ticks once, then every pair exchanges once - is executed in every pair order and initiator choice (3 nodes: 48 variants) and must leave all views identical and complete.",
   note="synchronous in-memory freighter mock transport; restart modelled as Heartbeat.Restart() of the host record (what cluster.Open does) - persistence of the generation across a crash (cluster.Open + kv flush) is not exercised; pairs that cannot exchange because neither side knows the other make no convergence claim.",
   design="3/C12"),
 "C06": dict(level="model_checking", engine="seqx",
   technique="explicit-state BFS over delivery orders/duplications/batchings into the real ingress pipeline of an aspen kv node (kv.Open), fold-of-maximum reference on value+digest",
   text="For two operation sets (one key with equal versions from two leaseholders and a newer delete; two keys with three versions) every sequence up to the depth bound of deliveries through the real operation transport into a real node's pipeline - each operation 1-2 times, alone or in two-op batches, any order - interleaved with local writes of the host on a key it leases. After every step (a sentinel transaction is awaited so the asynchronous pipeline has drained) the stored (version, leaseholder) of every key has not decreased and value+digest equal the maximum by (version, leaseholder) of everything applied, independent of order, duplication and batching.",
   note="in-memory freighter mock transports, memkv engine, real idle peer; clause 3 of the property (cluster-wide quiescence, restart recovery) is not decided by this check yet: gossip emitters are idle so that deliveries are exactly the enumerated ones.",
   design="3/C06"),
 "C13": dict(level="model_checking", engine="seqx",
   technique="explicit-state BFS over delivery orders/duplications/batchings into the real kv pipeline with three real subscribers (unfiltered, host-leaseholder filter, late subscriber); notification sequence compared with the state-changing operations",
   text="Same exploration as C06 through the real kv.Open pipeline (filter/persist, persist splitter relay, asynchronous observer) with three subscribers registered through DB.OnChange / NewObservable(IgnoreHostLeaseholder).OnChange, one of them attaching mid-traffic. After every step each subscriber must have been notified of exactly the operations that changed the node's stored state since its subscription - each once, in order, never one that lost to an already stored operation - and the filtered subscriber of exactly those minus host-led transactions.",
   note="in-memory transports; 'keeps up' holds by construction (one transaction in flight, relay buffer 500); observers carry no versions, operations are identified by unique values.",
   design="3/C13"),
 "C08": dict(level="exploration", engine="enumx",
   technique="bounded exhaustive enumeration of frames x codec states (round-trip against an independent sort-and-merge reference) and of byte strings / mutations of valid encodings (no panic, bounded allocation)",
   text="Round-trip: every frame of a bounded space (0-2 series per channel with lengths {0,1,2}, time ranges {zero,A,B}, alignments {0, a, contiguous, gapped, equal, earlier domain}, channel subsets incl. variable-length, reversed key order, >12 equal-alignment series) through Encode/Decode and EncodeStream/DecodeStream on codecs over the full and the exact channel set, with and without alignment compression, and on dynamic codecs after 1-3 updates with encoder and decoder 0-2 updates apart and with back-to-back updates; the decoded frame must equal the input up to key order and merging of alignment-contiguous series. Arbitrary bytes: all strings up to length 4 (thorough: 5) over {00,01,02,7f,80,fe,ff} after each of the 64 flag bytes, boundary counts after a valid sequence number, every truncation and every 4-byte-field mutation of valid encodings, and data frames sent to a dynamic codec before any update: Decode must return without panic and allocate at most 64*len+512KiB.",
   note="go1.26.8 toolchain; allocation measured with runtime.MemStats around each Decode; a fatal out-of-memory of the decoder is caught by the re-exec supervisor; the HTTP framer wrapper codec (per WebSocket message type) is not enumerated separately - its high-performance path is the codec decided here.",
   design="3/C08"),
 "C09": dict(level="exploration", engine="schedx",
   technique="stateless schedule enumeration (DFS, iterative preemption bounding) of the real cesium code under a controlled scheduler in a synctest bubble with sync/atomic shims; serial-result oracle; replay-twice determinism check; separate free-running -race pass",
   text="Seven scenarios of 2-3 threads with 1-3 operations each, chosen to collide: at domain level (same channel, disjoint regions) back-fill write || delete spanning two domains; GC || delete splitting a domain that compaction moves; first/last-domain commits || delete; GC || write || read; at cesium level write || delete of an earlier range || read; writers on two index groups; write || delete || GC. All interleavings at mutex/rwmutex/atomic/waitgroup operations of cesium, x and alamos with at most 2 (thorough: 3) preemptions, sharded over 12 processes. Every execution is replayed from its recorded choices (identical trace and outcome required). Oracle: no deadlock, no panic, every operation succeeds, and the content read back in memory and after close+reopen equals the serial result of the same (commuting) operations. The data-race clause is a separate free-running go test -race pass over the same bodies.",
   note="testing/synctest bubble as quiescence detector; go1.26.8 runtime with determinism patches for select order, map iteration and runtime.rand (overlay generated by bin/mkrt.py); GOMAXPROCS=1; channel operations are not scheduling points (goroutines blocked on channels run when woken); un-instrumented libraries run eagerly; the -race pass is sampling by nature and only reports races whose accesses involve repository code; a time budget that is hit yields exhaustive:false.",
   design="3/C09"),
 "C20": dict(level="exploration", engine="schedx",
   technique="stateless schedule enumeration (DFS, iterative preemption bounding, three select-polling rotations) of writers, streamers and DB.Close on the real cesium relay under the schedx controlled scheduler; per-streamer order/duplicate/filter/authorisation/completeness oracle; deadlock = violation",
   text="Four (thorough: five) scenarios: writer || re-subscribing streamer; two writers (one unauthorised on two of its three channels) || two streamers; a writer of 140-channel frames || two single-channel streamers; the two-writer/two-streamer scenario with streamers connected until the writers finish; thorough adds DB.Close as a thread. Every interleaving of the harness operations (open+ack, sync stream write, re-subscribe, disconnect, close) and of the lock/atomic operations below them with at most 2 (3) preemptions, for select rotations 0-2, sharded over 12 processes. Each streamer is drained by an always-ready consumer; delivered frames are decoded only after the execution ended. Oracle: no frame twice, per-writer order, only subscribed keys (monotone across a re-subscription), no series of a channel whose gate another writer held during the whole write, every frame written while the streamer was connected received (streamers disconnect after one second of fake time so in-flight frames can drain), and every operation returns (no deadlock).",
   note="channel operations inside relay/confluence are not scheduling points (no channel instrumenter was built): interleavings are explored at harness-operation and lock-operation granularity; fake time (the 20 ms slow-consumer timeout fires only if the scheduler advances the clock); virtual channels; replay of an execution compares traces and clock-free outcomes.",
   design="3/C20"),
 "C11": dict(level="model_checking", engine="schedx",
   technique="stateless exploration (DFS, bounded deviations) of the real pledge protocol: k concurrent pledge.Pledge calls against m real pledge.Arbitrate handlers under the schedx controlled scheduler, every transport Send an environment choice (deliver / fail / reply lost), timers on fake time, quorum choice varied through the map-iteration offset",
   text="Three (thorough: five) configurations - 3 members with identical views and 2 concurrent joins through different members, the same with message faults, members 1-2 stale about a node that joined through member 3 (a real earlier join) with faults; thorough: 4 members / 3 joins, 1 member / 2 joins. All interleavings of the joiners, the responsibles' quorum goroutines and the jurors at transport sends and lock/atomic operations, with every Send resolved as delivered, failed, or delivered with the reply lost, at most 2 (3) deviations per schedule, for 3 (5) map-iteration offsets (which change the majority xrand.SubMap selects). Oracle on every execution: no two admitted nodes share a key (including keys handed out earlier), every returned key was approved by a majority of the coordinator's view, the cluster key is returned; a pledge that never returns is a violation.",
   note="views are harness-owned (identical, or lagging by one joined node); juror memory is per process, juror restarts are not modelled; requests time out only when the scheduler advances fake time; every execution is one complete run of the real handlers, replayed for determinism (GC disabled inside an execution).",
   design="3/C11"),
 "C19": dict(level="exploration", engine="enumx",
   technique="bounded exhaustive enumeration of well-typed Arc functions x boundary argument tuples through the real pipeline (text.Parse, text.Analyze, compiler.Compile, wazero validate/instantiate, Call) against a reference interpreter written from arc/docs/spec.md and the Arc reference pages; exhaustive single-token mutation and bounded token-string enumeration for the no-crash clause",
   text="Programs: every operator (+ - * / % ^, six comparisons, and/or/not, unary minus) on each of the ten scalar types with parameter, typed-literal and bare-literal operands; all 100 cast pairs plus casts of sums/products, sums/comparisons/divisions of casts and round trips (thorough: all 3-cast chains); all flat two-operator sequences (and nine three-operator ones) printed without parentheses so that the documented precedence/associativity decides the expected tree; logic, truthiness and short circuit guarding a division; depth-2 expression trees; typed/inferred locals, parameter assignment, the five compound assignments; if / else-if / else with early return, fall-through, nesting; stateful variables over sequences of three calls on one instance; range loops with 1-3 arguments (negative steps), conditional and infinite loops, break/continue in each position of an if/else-if/else chain and under nesting, early return from a loop, loop-variable casts. Each function is called on the full cross product of a 10-17 value boundary alphabet per parameter (loops: small counts). Judged per call: the returned value at the declared width, or a runtime error exactly for integer division/modulo by zero; analyzer-accepted programs must compile, validate and instantiate. Cases the documentation leaves open (narrowing casts that also change signedness, NaN to integer, negative integer exponents, minimum/-1, range counters leaving their type) are counted, not judged. No-crash: every single-token deletion, duplication, swap and replacement by each of 39 alphabet tokens, and every truncation, of one seed program per family, and every token string up to length 3 (thorough: 4) over 30 tokens in a function body: diagnostics or a valid module, never a panic.",
   note="wazero interpreter engine; results are read at the declared width as every host does; a divergence in an evaluation in which a documented-but-unimplemented situation occurred (narrow overflow, saturating casts, documented precedence the grammar does not implement, ...) is attributed to the corresponding entry of KNOWN_FINDINGS.txt, every other divergence is a violation; series, strings, channels and the flow/sequence layers are outside this check.",
   design="3/C19"),
}
NOT_YET = {}
props = [json.loads(l) for l in open(os.path.join(HERE, "properties.jsonl"))]
checks, na = [], []
for p in props:
    i = p["id"]
    if i in CHECKS:
        c = CHECKS[i]
        checks.append({
            "property_id": i,
            "quick_cmd": f"bin/check {i} --tier quick",
            "thorough_cmd": f"bin/check {i} --tier thorough",
            "evidence_file": f"/verif/evidence/{i}.json",
            "replay_cmd_template": f"bin/check {i} --replay {{path}}",
            "engine": c["engine"],
            "level_claimed": {"category": c["level"], "text": c["text"], "design_ref": c["design"]},
            "level_note": c["note"],
            "technique": c["technique"],
        })
    else:
        na.append({"property_id": i, "reason": NOT_YET.get(i, "check not built yet in this session (model-checking harness planned in DESIGN.md section 3); not claimed until it runs green on the unchanged tree")})
hooks = []
try:
    hooks = [l.strip() for l in open(os.path.join(HERE, "HOOK_COMMITS.txt")) if l.strip() and not l.startswith("#")]
except FileNotFoundError:
    pass
m = {
 "version": 1,
 "setup_cmd": "bin/setup",
 "hooks": {
   "guard": "verif",
   "enable": "go build -tags verif (Go build tag; hook files are //go:build verif, add-only)",
   "baseline_off_cmd": "bin/baseline_off",
   "source_commits": hooks,
   "add_only": True,
 },
 "engines": [
   {"name": "seqx", "path": "kit/seqx", "serves_properties": [k for k, v in CHECKS.items() if v["engine"] == "seqx"], "kind_free_text": "explicit-state BFS; the transition function is the real code (fresh instance + replay + one op), dedup on canonical state, reference model compared at every step"},
   {"name": "crashx", "path": "kit/crashx", "serves_properties": [k for k, v in CHECKS.items() if v["engine"] == "crashx"], "kind_free_text": "recording filesystem; every prefix of the mutation log x torn variants of the last write, recovered with the real Open"},
   {"name": "schedx", "path": "kit/schedx", "serves_properties": [k for k, v in CHECKS.items() if v["engine"] == "schedx"], "kind_free_text": "controlled scheduler in a testing/synctest bubble with sync/atomic shims; stateless DFS with iterative preemption bounding, replay-twice determinism check"},
   {"name": "enumx", "path": "harness/*/c08,c19", "serves_properties": [k for k, v in CHECKS.items() if v["engine"] == "enumx"], "kind_free_text": "bounded exhaustive input/program/configuration enumeration against a reference"},
 ],
 "checks": checks,
 "not_applicable": na,
 "notes": "Single entry point bin/check <ID> --tier quick|thorough [--replay file]. Every check rebuilds its harness from /repo's working tree with -tags verif. KNOWN_FINDINGS.txt lists recorded findings and fixed defects.",
}
m["engines"] = [e for e in m["engines"] if e["serves_properties"]]
json.dump(m, open(os.path.join(HERE, "MANIFEST.json"), "w"), indent=1)
print("claimed:", [c["property_id"] for c in checks])
