# sourced by every script: offline Go environment for verification builds
export GOFLAGS=-mod=mod GOPROXY=off GOTOOLCHAIN=local
export VERIF_ROOT="${VERIF_ROOT:-/verif}"
export VGO=/opt/veriftools/go1.26.8/bin/go
export GOROOT=/opt/veriftools/go1.26.8
export PATH=/opt/veriftools/go1.26.8/bin:$PATH
export GOCACHE="${GOCACHE:-/root/.cache/go-build}"
