#!/usr/bin/env python3
"""Generates the runtime overlay used by schedx builds: patched copies of a few go1.26.8
runtime files (derived from the installed GOROOT at setup time) that make select polling
order, map iteration offsets/seeds and runtime.rand() deterministic when switched on with
schedx.SetDet. Output: build/rt/*.go and build/rt/overlay.json."""
import json, os, sys
HERE = os.path.dirname(os.path.dirname(os.path.abspath(__file__)))
GOROOT = "/opt/veriftools/go1.26.8"
OUT = os.path.join(HERE, "build", "rt")
os.makedirs(OUT, exist_ok=True)
rep = {}
def patch(rel, edits):
    src = open(os.path.join(GOROOT, "src", rel)).read()
    for old, new, count in edits:
        if src.count(old) != count:
            sys.exit(f"mkrt: {rel}: expected {count} occurrence(s) of {old!r}, found {src.count(old)}")
        src = src.replace(old, new)
    dst = os.path.join(OUT, rel.replace("/", "_"))
    open(dst, "w").write(src)
    rep[os.path.join(GOROOT, "src", rel)] = dst
def add(rel, content):
    dst = os.path.join(OUT, rel.replace("/", "_"))
    open(dst, "w").write(content)
    rep[os.path.join(GOROOT, "src", rel)] = dst

patch("runtime/select.go", [
    ("j := cheaprandn(uint32(norder + 1))", "j := verifSelectJ(uint32(norder + 1))", 1),
    ("\t\tnorder++\n\t}\n\tpollorder = pollorder[:norder]", "\t\tnorder++\n\t}\n\tpollorder = pollorder[:norder]\n\tverifRotate(pollorder)", 1),
])
patch("internal/runtime/maps/table.go", [
    ("it.entryOffset = rand()", "it.entryOffset = verifRand()", 1),
    ("it.dirOffset = rand()", "it.dirOffset = verifRand()", 1),
])
patch("internal/runtime/maps/map.go", [
    ("m.seed = uintptr(rand())", "m.seed = uintptr(verifSeed())", 4),
])
patch("runtime/rand.go", [
    ("func rand() uint64 {\n", "func rand() uint64 {\n\tif verifDet != 0 {\n\t\tverifRandState += 0x9E3779B97F4A7C15\n\t\tz := verifRandState\n\t\tz = (z ^ (z >> 30)) * 0xBF58476D1CE4E5B9\n\t\tz = (z ^ (z >> 27)) * 0x94D049BB133111EB\n\t\treturn z ^ (z >> 31)\n\t}\n", 1),
])
# sysmon asks a goroutine that has held its P for 10 ms of *wall-clock* time to yield at its
# next function call (cooperative preemption, independent of asyncpreemptoff). On a loaded
# machine a goroutine is easily descheduled by the OS for longer than that, which reorders
# un-instrumented goroutines between two runs of the same schedule. While the deterministic
# mode is on, the time slice is effectively infinite.
patch("runtime/proc.go", [
    ("} else if pd.schedwhen+forcePreemptNS <= now {", "} else if verifDet == 0 && pd.schedwhen+forcePreemptNS <= now {", 1),
])
for rel in ("math/rand/rand.go", "math/rand/v2/rand.go"):
    patch(rel, [("//go:linkname runtime_rand runtime.rand", "//go:linkname runtime_rand runtime.verifUserRand", 1)])
add("runtime/verif_runtime.go", '''package runtime

import (
	"internal/runtime/maps"
	_ "unsafe"
)

var verifDet uint32
var verifSelRot uint32
var verifRandState uint64

//go:linkname verifSetDet
func verifSetDet(on uint32, selRot uint32, mapOff uint64) {
	verifDet = on
	verifRandState = mapOff
	verifUserRandState = mapOff
	verifSelRot = selRot
	maps.VerifDet = on
	maps.VerifMapOff = mapOff
}

var verifUserRandState uint64

// verifUserRand backs math/rand and math/rand/v2 (their runtime_rand is linknamed here by
// the overlay): a private splitmix stream while the determinism switch is on, so that
// runtime-internal users of rand() cannot perturb what the program under test draws.
//
//go:linkname verifUserRand
func verifUserRand() uint64 {
	if verifDet != 0 {
		verifUserRandState += 0x9E3779B97F4A7C15
		z := verifUserRandState
		z = (z ^ (z >> 30)) * 0xBF58476D1CE4E5B9
		z = (z ^ (z >> 27)) * 0x94D049BB133111EB
		return z ^ (z >> 31)
	}
	return rand()
}

func verifSelectJ(n uint32) uint32 {
	if verifDet != 0 {
		return n - 1
	}
	return cheaprandn(n)
}

func verifRotate(p []uint16) {
	if verifDet == 0 || verifSelRot == 0 || len(p) < 2 {
		return
	}
	k := int(verifSelRot) % len(p)
	for ; k > 0; k-- {
		f := p[0]
		copy(p, p[1:])
		p[len(p)-1] = f
	}
}
''')
add("internal/runtime/maps/verif_maps.go", '''package maps

// VerifDet, when non-zero, makes map hashing seeds and iteration offsets deterministic.
var VerifDet uint32
var VerifMapOff uint64

func verifRand() uint64 {
	if VerifDet != 0 {
		return VerifMapOff
	}
	return rand()
}

func verifSeed() uint64 {
	if VerifDet != 0 {
		return 0x9E3779B97F4A7C15
	}
	return rand()
}
''')
json.dump({"Replace": rep}, open(os.path.join(OUT, "overlay.json"), "w"), indent=1)
print("runtime overlay:", len(rep), "files ->", OUT)
