#!/usr/bin/env python3
import json, jsonschema, glob, sys
ok = True
def v(f, s):
    global ok
    try:
        jsonschema.validate(json.load(open(f)), json.load(open(s)))
    except Exception as e:
        ok = False; print("INVALID", f, str(e)[:300])
v('/verif/MANIFEST.json', '/root/.vp/MANIFEST.schema.json')
for f in sorted(glob.glob('/verif/evidence/*.json')):
    v(f, '/root/.vp/EVIDENCE.schema.json')
print("valid" if ok else "FAILED"); sys.exit(0 if ok else 1)
