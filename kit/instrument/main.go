// Command instrument generates a build overlay in which every non-test Go file of the given
// source trees that imports "sync" or "sync/atomic" imports the schedx shims instead
// (verifkit/vsync, verifkit/vatomic). The rewrite is mechanical (import paths only) and is
// redone from the current working tree on every check run.
//
// With -chan <substr,substr,...> files whose path contains one of the substrings also get a
// scheduling point (verifkit/vsync.ChanPoint) in front of every statement that sends on,
// receives from or selects over a channel, so that pipeline stages connected by channels
// are interleaved by the explorer as well.
//
//	instrument -out <dir> -overlay <out.json> [-merge <base-overlay.json>] [-chan a,b] <tree>...
package main

import (
	"encoding/json"
	"flag"
	"fmt"
	"go/ast"
	"go/parser"
	"go/token"
	"os"
	"path/filepath"
	"sort"
	"strings"
)

func main() {
	out := flag.String("out", "", "directory for generated files")
	ov := flag.String("overlay", "", "overlay json to write")
	merge := flag.String("merge", "", "base overlay json to merge in")
	chanSel := flag.String("chan", "", "comma separated path substrings: files to receive channel scheduling points")
	flag.Parse()
	var chanSubs []string
	for _, c := range strings.Split(*chanSel, ",") {
		if c != "" {
			chanSubs = append(chanSubs, c)
		}
	}
	rep := map[string]string{}
	if *merge != "" {
		b, err := os.ReadFile(*merge)
		if err != nil {
			fail(err)
		}
		var base struct{ Replace map[string]string }
		if err := json.Unmarshal(b, &base); err != nil {
			fail(err)
		}
		for k, v := range base.Replace {
			rep[k] = v
		}
	}
	if err := os.MkdirAll(*out, 0o755); err != nil {
		fail(err)
	}
	n := 0
	for _, tree := range flag.Args() {
		err := filepath.Walk(tree, func(p string, info os.FileInfo, err error) error {
			if err != nil {
				return err
			}
			if info.IsDir() {
				b := info.Name()
				if b == "testdata" || b == "vendor" || b == "node_modules" || (strings.HasPrefix(b, ".") && p != tree) {
					return filepath.SkipDir
				}
				return nil
			}
			if !strings.HasSuffix(p, ".go") || strings.HasSuffix(p, "_test.go") {
				return nil
			}
			src, err := os.ReadFile(p)
			if err != nil {
				return err
			}
			wantChan := false
			for _, c := range chanSubs {
				if strings.Contains(p, c) && (strings.Contains(string(src), "<-") || strings.Contains(string(src), "select")) {
					wantChan = true
				}
			}
			if !strings.Contains(string(src), `"sync`) && !wantChan {
				return nil
			}
			fset := token.NewFileSet()
			mode := parser.ImportsOnly
			if wantChan {
				mode = parser.SkipObjectResolution
			}
			f, err := parser.ParseFile(fset, p, src, mode)
			if err != nil {
				return nil // not our problem: the compiler will say
			}
			type edit struct {
				off, end int
				text     string
			}
			var edits []edit
			if wantChan {
				n := 0
				for _, pos := range chanStmtPositions(f) {
					o := fset.Position(pos).Offset
					edits = append(edits, edit{o, o, "verifpt.ChanPoint(); "})
					n++
				}
				if n > 0 {
					o := fset.Position(f.Name.End()).Offset
					edits = append(edits, edit{o, o, "; import verifpt \"verifkit/vsync\""})
				}
			}
			for _, im := range f.Imports {
				var to, alias string
				switch im.Path.Value {
				case `"sync"`:
					to, alias = `"verifkit/vsync"`, "sync"
				case `"sync/atomic"`:
					to, alias = `"verifkit/vatomic"`, "atomic"
				default:
					continue
				}
				text := to
				if im.Name == nil {
					text = alias + " " + to
				}
				edits = append(edits, edit{fset.Position(im.Path.Pos()).Offset, fset.Position(im.Path.End()).Offset, text})
			}
			if len(edits) == 0 {
				return nil
			}
			sort.SliceStable(edits, func(i, j int) bool { return edits[i].off < edits[j].off })
			res := string(src)
			for i := len(edits) - 1; i >= 0; i-- {
				e := edits[i]
				res = res[:e.off] + e.text + res[e.end:]
			}
			abs, _ := filepath.Abs(p)
			dst := filepath.Join(*out, strings.ReplaceAll(strings.TrimPrefix(abs, "/"), "/", "_"))
			if err := os.WriteFile(dst, []byte(res), 0o644); err != nil {
				return err
			}
			rep[abs] = dst
			n++
			return nil
		})
		if err != nil {
			fail(err)
		}
	}
	b, _ := json.MarshalIndent(map[string]any{"Replace": rep}, "", " ")
	if err := os.WriteFile(*ov, b, 0o644); err != nil {
		fail(err)
	}
	fmt.Fprintf(os.Stderr, "instrument: %d files rewritten\n", n)
}

// chanStmtPositions returns the start of every statement that sits directly in a statement
// list and sends, receives or selects (function literals inside it are not searched: their
// own statement lists are visited separately).
func chanStmtPositions(f *ast.File) []token.Pos {
	var out []token.Pos
	hasChanOp := func(s ast.Stmt) bool {
		found := false
		ast.Inspect(s, func(n ast.Node) bool {
			if found {
				return false
			}
			switch x := n.(type) {
			case *ast.FuncLit:
				return false
			case *ast.BlockStmt:
				if n != ast.Node(s) {
					return false // nested statement lists are visited on their own
				}
			case *ast.SendStmt:
				found = true
			case *ast.SelectStmt:
				found = true
				return false
			case *ast.UnaryExpr:
				if x.Op == token.ARROW {
					found = true
				}
			}
			return true
		})
		return found
	}
	visit := func(list []ast.Stmt) {
		for _, s := range list {
			switch x := s.(type) {
			case *ast.SendStmt, *ast.SelectStmt:
				out = append(out, s.Pos())
			case *ast.ExprStmt, *ast.AssignStmt, *ast.ReturnStmt, *ast.DeclStmt, *ast.IncDecStmt:
				if hasChanOp(s) {
					out = append(out, s.Pos())
				}
			case *ast.LabeledStmt:
				if _, ok := x.Stmt.(*ast.SelectStmt); ok {
					out = append(out, s.Pos())
				}
			case *ast.RangeStmt:
				// the confluence idiom: for v := range x.Outlet() { ... } - a point before the
				// loop and at the start of every iteration
				if c, ok := x.X.(*ast.CallExpr); ok {
					if sel, ok := c.Fun.(*ast.SelectorExpr); ok && sel.Sel.Name == "Outlet" && x.Body != nil {
						out = append(out, s.Pos(), x.Body.Lbrace+1)
					}
				}
			case *ast.IfStmt:
				// a receive in the init or condition of an if
				probe := &ast.IfStmt{Init: x.Init, Cond: x.Cond, Body: &ast.BlockStmt{}}
				if hasChanOp(probe) {
					out = append(out, s.Pos())
				}
			}
		}
	}
	ast.Inspect(f, func(n ast.Node) bool {
		switch x := n.(type) {
		case *ast.BlockStmt:
			visit(x.List)
		case *ast.CaseClause:
			visit(x.Body)
		case *ast.CommClause:
			visit(x.Body)
		}
		return true
	})
	return out
}

func fail(err error) {
	fmt.Fprintln(os.Stderr, "instrument:", err)
	os.Exit(2)
}
