// Command instrument generates a build overlay in which every non-test Go file of the given
// source trees that imports "sync" or "sync/atomic" imports the schedx shims instead
// (verifkit/vsync, verifkit/vatomic). The rewrite is mechanical (import paths only) and is
// redone from the current working tree on every check run.
//
//	instrument -out <dir> -overlay <out.json> [-merge <base-overlay.json>] <tree>...
package main

import (
	"encoding/json"
	"flag"
	"fmt"
	"go/parser"
	"go/token"
	"os"
	"path/filepath"
	"strings"
)

func main() {
	out := flag.String("out", "", "directory for generated files")
	ov := flag.String("overlay", "", "overlay json to write")
	merge := flag.String("merge", "", "base overlay json to merge in")
	flag.Parse()
	rep := map[string]string{}
	if *merge != "" {
		b, err := os.ReadFile(*merge)
		if err != nil {
			fail(err)
		}
		var base struct{ Replace map[string]string }
		if err := json.Unmarshal(b, &base); err != nil {
			fail(err)
		}
		for k, v := range base.Replace {
			rep[k] = v
		}
	}
	if err := os.MkdirAll(*out, 0o755); err != nil {
		fail(err)
	}
	n := 0
	for _, tree := range flag.Args() {
		err := filepath.Walk(tree, func(p string, info os.FileInfo, err error) error {
			if err != nil {
				return err
			}
			if info.IsDir() {
				b := info.Name()
				if b == "testdata" || b == "vendor" || b == "node_modules" || (strings.HasPrefix(b, ".") && p != tree) {
					return filepath.SkipDir
				}
				return nil
			}
			if !strings.HasSuffix(p, ".go") || strings.HasSuffix(p, "_test.go") {
				return nil
			}
			src, err := os.ReadFile(p)
			if err != nil {
				return err
			}
			if !strings.Contains(string(src), `"sync`) {
				return nil
			}
			fset := token.NewFileSet()
			f, err := parser.ParseFile(fset, p, src, parser.ImportsOnly)
			if err != nil {
				return nil // not our problem: the compiler will say
			}
			type edit struct {
				off, end int
				text     string
			}
			var edits []edit
			for _, im := range f.Imports {
				var to, alias string
				switch im.Path.Value {
				case `"sync"`:
					to, alias = `"verifkit/vsync"`, "sync"
				case `"sync/atomic"`:
					to, alias = `"verifkit/vatomic"`, "atomic"
				default:
					continue
				}
				text := to
				if im.Name == nil {
					text = alias + " " + to
				}
				edits = append(edits, edit{fset.Position(im.Path.Pos()).Offset, fset.Position(im.Path.End()).Offset, text})
			}
			if len(edits) == 0 {
				return nil
			}
			res := string(src)
			for i := len(edits) - 1; i >= 0; i-- {
				e := edits[i]
				res = res[:e.off] + e.text + res[e.end:]
			}
			abs, _ := filepath.Abs(p)
			dst := filepath.Join(*out, strings.ReplaceAll(strings.TrimPrefix(abs, "/"), "/", "_"))
			if err := os.WriteFile(dst, []byte(res), 0o644); err != nil {
				return err
			}
			rep[abs] = dst
			n++
			return nil
		})
		if err != nil {
			fail(err)
		}
	}
	b, _ := json.MarshalIndent(map[string]any{"Replace": rep}, "", " ")
	if err := os.WriteFile(*ov, b, 0o644); err != nil {
		fail(err)
	}
	fmt.Fprintf(os.Stderr, "instrument: %d files rewritten\n", n)
}

func fail(err error) {
	fmt.Fprintln(os.Stderr, "instrument:", err)
	os.Exit(2)
}
