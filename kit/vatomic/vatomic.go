// Package vatomic is a drop-in for "sync/atomic" whose operations are scheduling points of
// the schedx controlled scheduler (a no-op when no scheduler is active).
package vatomic

import (
	goatomic "sync/atomic"

	vsched "verifkit/schedx"
)

type Bool struct{ v goatomic.Bool }

func (b *Bool) Load() bool       { vsched.Point("a.load"); return b.v.Load() }
func (b *Bool) Store(x bool)     { vsched.Point("a.store"); b.v.Store(x) }
func (b *Bool) Swap(x bool) bool { vsched.Point("a.swap"); return b.v.Swap(x) }
func (b *Bool) CompareAndSwap(o, n bool) bool {
	vsched.Point("a.cas")
	return b.v.CompareAndSwap(o, n)
}

type Int64 struct{ v goatomic.Int64 }

func (b *Int64) Load() int64        { vsched.Point("a.load"); return b.v.Load() }
func (b *Int64) Store(x int64)      { vsched.Point("a.store"); b.v.Store(x) }
func (b *Int64) Add(x int64) int64  { vsched.Point("a.add"); return b.v.Add(x) }
func (b *Int64) Swap(x int64) int64 { vsched.Point("a.swap"); return b.v.Swap(x) }
func (b *Int64) CompareAndSwap(o, n int64) bool {
	vsched.Point("a.cas")
	return b.v.CompareAndSwap(o, n)
}

type Int32 struct{ v goatomic.Int32 }

func (b *Int32) Load() int32        { vsched.Point("a.load"); return b.v.Load() }
func (b *Int32) Store(x int32)      { vsched.Point("a.store"); b.v.Store(x) }
func (b *Int32) Add(x int32) int32  { vsched.Point("a.add"); return b.v.Add(x) }
func (b *Int32) Swap(x int32) int32 { vsched.Point("a.swap"); return b.v.Swap(x) }
func (b *Int32) CompareAndSwap(o, n int32) bool {
	vsched.Point("a.cas")
	return b.v.CompareAndSwap(o, n)
}

type Uint32 struct{ v goatomic.Uint32 }

func (b *Uint32) Load() uint32         { vsched.Point("a.load"); return b.v.Load() }
func (b *Uint32) Store(x uint32)       { vsched.Point("a.store"); b.v.Store(x) }
func (b *Uint32) Add(x uint32) uint32  { vsched.Point("a.add"); return b.v.Add(x) }
func (b *Uint32) Swap(x uint32) uint32 { vsched.Point("a.swap"); return b.v.Swap(x) }
func (b *Uint32) CompareAndSwap(o, n uint32) bool {
	vsched.Point("a.cas")
	return b.v.CompareAndSwap(o, n)
}

type Uint64 struct{ v goatomic.Uint64 }

func (b *Uint64) Load() uint64         { vsched.Point("a.load"); return b.v.Load() }
func (b *Uint64) Store(x uint64)       { vsched.Point("a.store"); b.v.Store(x) }
func (b *Uint64) Add(x uint64) uint64  { vsched.Point("a.add"); return b.v.Add(x) }
func (b *Uint64) Swap(x uint64) uint64 { vsched.Point("a.swap"); return b.v.Swap(x) }
func (b *Uint64) CompareAndSwap(o, n uint64) bool {
	vsched.Point("a.cas")
	return b.v.CompareAndSwap(o, n)
}

type Pointer[T any] struct{ v goatomic.Pointer[T] }

func (p *Pointer[T]) Load() *T     { vsched.Point("a.load"); return p.v.Load() }
func (p *Pointer[T]) Store(x *T)   { vsched.Point("a.store"); p.v.Store(x) }
func (p *Pointer[T]) Swap(x *T) *T { vsched.Point("a.swap"); return p.v.Swap(x) }
func (p *Pointer[T]) CompareAndSwap(o, n *T) bool {
	vsched.Point("a.cas")
	return p.v.CompareAndSwap(o, n)
}

type Value struct{ v goatomic.Value }

func (p *Value) Load() any      { vsched.Point("a.load"); return p.v.Load() }
func (p *Value) Store(x any)    { vsched.Point("a.store"); p.v.Store(x) }
func (p *Value) Swap(x any) any { vsched.Point("a.swap"); return p.v.Swap(x) }
func (p *Value) CompareAndSwap(o, n any) bool {
	vsched.Point("a.cas")
	return p.v.CompareAndSwap(o, n)
}

func LoadInt64(p *int64) int64             { vsched.Point("a.load"); return goatomic.LoadInt64(p) }
func StoreInt64(p *int64, v int64)         { vsched.Point("a.store"); goatomic.StoreInt64(p, v) }
func AddInt64(p *int64, d int64) int64     { vsched.Point("a.add"); return goatomic.AddInt64(p, d) }
func LoadInt32(p *int32) int32             { vsched.Point("a.load"); return goatomic.LoadInt32(p) }
func StoreInt32(p *int32, v int32)         { vsched.Point("a.store"); goatomic.StoreInt32(p, v) }
func AddInt32(p *int32, d int32) int32     { vsched.Point("a.add"); return goatomic.AddInt32(p, d) }
func LoadUint32(p *uint32) uint32          { vsched.Point("a.load"); return goatomic.LoadUint32(p) }
func AddUint32(p *uint32, d uint32) uint32 { vsched.Point("a.add"); return goatomic.AddUint32(p, d) }
func LoadUint64(p *uint64) uint64          { vsched.Point("a.load"); return goatomic.LoadUint64(p) }
func AddUint64(p *uint64, d uint64) uint64 { vsched.Point("a.add"); return goatomic.AddUint64(p, d) }
func CompareAndSwapInt32(p *int32, o, n int32) bool {
	vsched.Point("a.cas")
	return goatomic.CompareAndSwapInt32(p, o, n)
}
func CompareAndSwapInt64(p *int64, o, n int64) bool {
	vsched.Point("a.cas")
	return goatomic.CompareAndSwapInt64(p, o, n)
}
