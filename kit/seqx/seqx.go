// Package seqx is an explicit-state breadth-first search whose transition function is
// the real code: a state is represented by the shortest op sequence that reaches it, a
// successor is produced by building a fresh system, replaying the sequence and
// applying one more op. States are deduplicated on Canon().
package seqx

import (
	"errors"
	"fmt"
	"sort"
	"strings"
	"sync"
	"sync/atomic"
	"time"

	"verifkit/vk"
)

// Sys is one fresh instance of the real system plus its reference model.
type Sys interface {
	// Ops lists the ops enabled in the current state, simplest first, deterministic.
	Ops() []string
	// Apply runs op on the real code and on the model and compares. It returns a short
	// observable (used only to count distinct outcomes) and a *vk.Violation error when
	// the property is broken; any other error is a harness error.
	Apply(op string) (string, error)
	// Canon is the canonical property-relevant state.
	Canon() string
	// Check evaluates state invariants / the full query sweep.
	Check() error
	// Close releases resources.
	Close()
}

// Config configures an exploration.
type Config struct {
	Name     string
	New      func() (Sys, error)
	MaxDepth int
	Deadline time.Time
	Workers  int
	// MaxStates caps the number of distinct states (0 = no cap).
	MaxStates int
	// CheckEvery: run Check on every transition target, not only on new states.
	CheckEvery bool
	// Seed only permutes the order in which a level's frontier is processed.
	Seed int64
	// Confirm is the number of times a violating sequence is executed again, on fresh
	// instances and after the search (when the workers are idle), before it is reported:
	// a violation is reported only if one of these executions shows a violation too, so that
	// what is reported can always be replayed. Sequences that never fail again are counted
	// as unconfirmed observations in the evidence. 0 means 3; negative disables.
	Confirm int
}

// Stats is what an exploration covered.
type Stats struct {
	Name        string         `json:"name"`
	States      int            `json:"states"`
	Transitions int            `json:"transitions"`
	Depth       int            `json:"depth_completed"`
	Fixpoint    bool           `json:"fixpoint"`
	Exhaustive  bool           `json:"exhaustive_within_bound"`
	Observables int            `json:"distinct_observables"`
	OpOK        map[string]int `json:"op_ok"`
	OpFail      map[string]int `json:"op_refused"`
	Samples     [][]string     `json:"-"`
	Checks      int            `json:"state_checks"`
	CapHit      string         `json:"cap_hit,omitempty"`
	ObsCount    map[string]int `json:"observable_counts,omitempty"`
	Unconfirmed []string       `json:"unconfirmed_observations,omitempty"`
}

// pending holds violations seen during the search until they are confirmed.
type pendingV struct {
	path []string
	v    *vk.Violation
}

var (
	pendMu sync.Mutex
	pend   = map[*vk.Run]map[string][]pendingV{} // run -> exploration name -> observations
)

type node struct {
	path []string
}

// Explore runs the BFS. Violations are reported to r; harness errors too.
func Explore(r *vk.Run, cfg Config) *Stats {
	st := &Stats{Name: cfg.Name, OpOK: map[string]int{}, OpFail: map[string]int{}, ObsCount: map[string]int{}}
	if cfg.Workers <= 0 {
		cfg.Workers = 16
	}
	var mu sync.Mutex
	seen := map[string]bool{}
	obs := map[string]bool{}
	var stop atomic.Bool
	var transitions, checks atomic.Int64

	if cfg.Confirm >= 0 {
		pendMu.Lock()
		if pend[r] == nil {
			pend[r] = map[string][]pendingV{}
		}
		pend[r][cfg.Name] = nil
		pendMu.Unlock()
		defer confirm(r, cfg, st)
	}
	root, err := cfg.New()
	if err != nil {
		r.HarnessError("%s: New: %v", cfg.Name, err)
		return st
	}
	if err := root.Check(); err != nil {
		report(r, cfg.Name, nil, err)
	}
	seen[root.Canon()] = true
	root.Close()
	frontier := []node{{}}
	st.States = 1

	for depth := 1; depth <= cfg.MaxDepth && len(frontier) > 0; depth++ {
		if cfg.Seed != 0 {
			rot := int(uint64(cfg.Seed) % uint64(len(frontier)))
			frontier = append(frontier[rot:], frontier[:rot]...)
		}
		var next []node
		var wg sync.WaitGroup
		ch := make(chan node)
		for w := 0; w < cfg.Workers; w++ {
			wg.Add(1)
			go func() {
				defer wg.Done()
				for n := range ch {
					if stop.Load() {
						continue
					}
					expand(r, cfg, w, n, &mu, seen, obs, st, &next, &stop, &transitions, &checks)
					vk.InflightIdle(w)
				}
			}()
		}
		for _, n := range frontier {
			if stop.Load() {
				break
			}
			if !cfg.Deadline.IsZero() && time.Now().After(cfg.Deadline) {
				mu.Lock()
				st.CapHit = "time budget"
				mu.Unlock()
				stop.Store(true)
				break
			}
			ch <- n
		}
		close(ch)
		wg.Wait()
		if stop.Load() {
			break
		}
		st.Depth = depth
		// deterministic order of the next frontier
		sort.Slice(next, func(i, j int) bool { return strings.Join(next[i].path, "\x00") < strings.Join(next[j].path, "\x00") })
		frontier = next
		if len(frontier) == 0 {
			st.Fixpoint = true
		}
	}
	st.States = len(seen)
	st.Transitions = int(transitions.Load())
	st.Checks = int(checks.Load())
	st.Observables = len(obs)
	st.Exhaustive = st.CapHit == "" && (st.Fixpoint || st.Depth >= cfg.MaxDepth)
	return st
}

func report(r *vk.Run, name string, path []string, err error) {
	var v *vk.Violation
	if errors.As(err, &v) {
		c := *v
		c.Trace = append([]string{}, path...)
		c.Scenario = name
		pendMu.Lock()
		defer pendMu.Unlock()
		m := pend[r]
		if _, ok := m[name]; !ok {
			r.Report(&c) // not inside an exploration with confirmation
			return
		}
		// at most three sequences per fingerprint are kept for confirmation
		n := 0
		for _, p := range m[name] {
			if p.v.Fingerprint == c.Fingerprint {
				n++
			}
		}
		if n < 3 {
			m[name] = append(m[name], pendingV{c.Trace, &c})
		}
		return
	}
	r.HarnessError("%s: path %v: %v", name, path, err)
}

// confirm executes the pending sequences again and reports those that fail again.
func confirm(r *vk.Run, cfg Config, st *Stats) {
	pendMu.Lock()
	list := pend[r][cfg.Name]
	delete(pend[r], cfg.Name)
	if len(pend[r]) == 0 {
		delete(pend, r)
	}
	pendMu.Unlock()
	times := cfg.Confirm
	if times == 0 {
		times = 3
	}
	done := map[string]bool{}
	for _, p := range list {
		if done[p.v.Fingerprint] {
			continue
		}
		var again *vk.Violation
		for i := 0; i < times && again == nil; i++ {
			vk.Beat()
			if err := Replay(cfg, p.path); err != nil {
				if !errors.As(err, &again) {
					r.HarnessError("%s: confirming %v: %v", cfg.Name, p.path, err)
					break
				}
			}
		}
		if again != nil {
			c := *again
			c.Trace, c.Scenario = p.path, cfg.Name
			if !r.FreshReplay(&c, 2) {
				st.Unconfirmed = append(st.Unconfirmed, fmt.Sprintf("%s after %v (seen again in this process, but in neither of two fresh processes replaying it): %s", c.Fingerprint, p.path, c.Detail))
				done[p.v.Fingerprint] = true
				continue
			}
			r.Report(&c)
			done[c.Fingerprint] = true
			done[p.v.Fingerprint] = true
			continue
		}
		st.Unconfirmed = append(st.Unconfirmed, fmt.Sprintf("%s after %v (not seen again in %d further executions): %s", p.v.Fingerprint, p.path, times, p.v.Detail))
	}
}

// replayFailed handles a failure while re-establishing an already visited state. If the
// failure is a property violation (the code under test behaved differently on this run of
// the same sequence - nondeterminism inside it), it is reported as such, with the prefix
// that failed; anything else is a harness error.
func replayFailed(r *vk.Run, cfg Config, path []string, err error, stop *atomic.Bool) {
	var v *vk.Violation
	if errors.As(err, &v) {
		c := *v
		c.Detail = "on a repeated execution of an already explored sequence: " + c.Detail
		report(r, cfg.Name, path, &c)
		return
	}
	r.HarnessError("%s: %v", cfg.Name, err)
	stop.Store(true)
}

func replay(cfg Config, path []string) (Sys, error) {
	s, err := cfg.New()
	if err != nil {
		return nil, err
	}
	for i, op := range path {
		if _, err := s.Apply(op); err != nil {
			s.Close()
			return nil, fmt.Errorf("replay diverged at %d (%s): %w", i, op, err)
		}
	}
	return s, nil
}

func expand(r *vk.Run, cfg Config, slot int, n node, mu *sync.Mutex, seen, obs map[string]bool, st *Stats,
	next *[]node, stop *atomic.Bool, transitions, checks *atomic.Int64) {
	defer func() {
		if p := recover(); p != nil {
			report(r, cfg.Name, n.path, vk.Violationf("panic:"+firstLine(fmt.Sprint(p)), "panic while expanding: %v", p))
		}
	}()
	vk.Inflight(slot, cfg.Name, n.path)
	s, err := replay(cfg, n.path)
	if err != nil {
		replayFailed(r, cfg, n.path, err, stop)
		return
	}
	ops := s.Ops()
	if len(ops) == 0 {
		s.Close()
		return
	}
	for i, op := range ops {
		if stop.Load() {
			break
		}
		if i > 0 {
			s, err = replay(cfg, n.path)
			if err != nil {
				replayFailed(r, cfg, n.path, err, stop)
				return
			}
		}
		path := append(append(make([]string, 0, len(n.path)+1), n.path...), op)
		func() {
			panicked := false
			// an instance that panicked may hold its own locks: closing it can block forever, so
			// it is abandoned instead
			defer func() {
				if !panicked {
					s.Close()
				}
			}()
			defer func() {
				if p := recover(); p != nil {
					panicked = true
					report(r, cfg.Name, path, vk.Violationf("panic:"+firstLine(fmt.Sprint(p)), "panic in %s: %v", op, p))
				}
			}()
			vk.Inflight(slot, cfg.Name, path)
			o, err := s.Apply(op)
			transitions.Add(1)
			if err != nil {
				report(r, cfg.Name, path, err)
				return
			}
			c := s.Canon()
			mu.Lock()
			obs[opKind(op)+"="+o] = true
			if len(st.ObsCount) < 60 || st.ObsCount[opKind(op)+"="+o] > 0 {
				st.ObsCount[opKind(op)+"="+o]++
			}
			if strings.HasPrefix(o, "err") || strings.HasPrefix(o, "refused") {
				st.OpFail[opKind(op)]++
			} else {
				st.OpOK[opKind(op)]++
			}
			isNew := !seen[c]
			if isNew {
				if cfg.MaxStates > 0 && len(seen) >= cfg.MaxStates {
					st.CapHit = "max states"
					stop.Store(true)
					mu.Unlock()
					return
				}
				seen[c] = true
				if len(st.Samples) < 6 || (len(path) > len(st.Samples[len(st.Samples)-1]) && len(st.Samples) < 12) {
					st.Samples = append(st.Samples, path)
				}
			}
			mu.Unlock()
			if isNew || cfg.CheckEvery {
				checks.Add(1)
				if err := s.Check(); err != nil {
					report(r, cfg.Name, path, err)
					return
				}
			}
			if isNew {
				mu.Lock()
				*next = append(*next, node{path: path})
				mu.Unlock()
			}
		}()
	}
}

func opKind(op string) string {
	if i := strings.IndexAny(op, "( :"); i > 0 {
		return op[:i]
	}
	return op
}

func firstLine(s string) string {
	if i := strings.IndexByte(s, '\n'); i >= 0 {
		s = s[:i]
	}
	if len(s) > 120 {
		s = s[:120]
	}
	return s
}

// Replay re-executes one op sequence and returns the violation it produces, if any.
func Replay(cfg Config, path []string) (rerr error) {
	s, err := cfg.New()
	if err != nil {
		return err
	}
	panicked := false
	defer func() {
		if !panicked {
			s.Close()
		}
	}()
	defer func() {
		if p := recover(); p != nil {
			panicked = true
			rerr = vk.Violationf("panic:"+firstLine(fmt.Sprint(p)), "panic during replay: %v", p)
		}
	}()
	if err := s.Check(); err != nil {
		return err
	}
	for _, op := range path {
		if _, err := s.Apply(op); err != nil {
			return err
		}
		if err := s.Check(); err != nil {
			return err
		}
	}
	return nil
}

// Merge folds the stats of one exploration into the run's coverage.
func Merge(r *vk.Run, st *Stats) {
	r.Add("states", st.States)
	r.Add("transitions", st.Transitions)
	r.Add("traces_validated_against_impl", st.Transitions)
	r.Add("state_checks", st.Checks)
	r.Add("distinct_observables", st.Observables)
	if len(st.Unconfirmed) > 0 {
		r.Add("unconfirmed_observations", len(st.Unconfirmed))
		r.Assume("an observation that did not occur again when its sequence was executed " +
			"three more times on an idle process is listed under unconfirmed_observations and not reported")
	}
	ex, ok := r.Get("exhaustive").(bool)
	if !ok {
		ex = true
	}
	r.Set("exhaustive", ex && st.Exhaustive)
	subs, _ := r.Get("explorations").([]any)
	r.Set("explorations", append(subs, st))
	for _, s := range st.Samples {
		r.Sample(map[string]any{"exploration": st.Name, "ops": s})
	}
}
