module verifkit

go 1.26
