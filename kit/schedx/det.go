package schedx

import _ "unsafe"

//go:linkname verifSetDet runtime.verifSetDet
func verifSetDet(on uint32, selRot uint32, mapOff uint64)

// SetDet switches the runtime patches (build/rt overlay) on or off: deterministic select
// polling order rotated by selRot, deterministic map iteration offset mapOff, and a
// splitmix stream for runtime.rand seeded with mapOff.
func SetDet(on bool, selRot uint32, mapOff uint64) {
	var o uint32
	if on {
		o = 1
	}
	verifSetDet(o, selRot, mapOff)
}
