// Package schedx is a controlled scheduler for real Go code. One execution runs inside a
// testing/synctest bubble; the scheduler goroutine uses synctest.Wait as a quiescence
// detector, then wakes exactly one of the goroutines parked at a scheduling point
// (Point), chosen by the current schedule prefix. Explore enumerates schedules depth-first
// with iterative preemption bounding and replays every execution to check determinism.
package schedx

import (
	"bytes"
	"fmt"
	"os"
	"runtime"
	"runtime/debug"
	"sort"
	"strconv"
	gosync "sync"
	"testing"
	"testing/synctest"
	"time"
)

type g struct {
	id     int
	wake   chan struct{}
	alts   int // >1 when parked in Choose: number of environment answers
	choice int
	seq    int // order in which goroutines parked (larger = more recent)
}

type entry struct {
	g   *g
	alt int
}

// Sched is the scheduler of one execution.
type Sched struct {
	mu       gosync.Mutex
	gs       map[uint64]*g
	parked   map[*g]string
	nextID   int
	running  *g
	prefix   []int
	Choices  []int
	Enabled  []int
	RunFirst []bool // at step i, was the previously running goroutine still enabled (choice 0 = no preemption)
	Trace    []string
	active   bool
	Steps    int
	MaxSteps int
	seq      int
	Diverged string
}

var cur *Sched
var runs int

func goid() uint64 {
	var buf [64]byte
	b := buf[:runtime.Stack(buf[:], false)]
	b = b[len("goroutine "):]
	b = b[:bytes.IndexByte(b, ' ')]
	n, _ := strconv.ParseUint(string(b), 10, 64)
	return n
}

func (s *Sched) self() *g {
	id := goid()
	s.mu.Lock()
	x, ok := s.gs[id]
	if !ok {
		x = &g{id: s.nextID, wake: make(chan struct{})}
		s.nextID++
		s.gs[id] = x
	}
	s.mu.Unlock()
	return x
}

// Point parks the calling goroutine until the scheduler selects it. It is a no-op when no
// scheduler is active.
func Point(w ...string) {
	s := cur
	if s == nil || !s.active {
		return
	}
	what := "chan"
	if len(w) > 0 {
		what = w[0]
	}
	x := s.self()
	s.mu.Lock()
	s.parked[x] = what
	x.seq = s.seq // the scheduler step during which this goroutine parked
	s.mu.Unlock()
	<-x.wake
}

// Choose is an environment choice point (a fault, a timeout, which peer answers): the
// explorer enumerates the n answers. Answer 0 is the default; any other answer counts as one
// deviation, like a preemption. Returns 0 when no scheduler is active.
func Choose(n int, w ...string) int {
	s := cur
	if s == nil || !s.active || n <= 1 {
		return 0
	}
	what := "choose"
	if len(w) > 0 {
		what = w[0]
	}
	x := s.self()
	s.mu.Lock()
	x.alts = n
	s.parked[x] = what
	x.seq = s.seq // the scheduler step during which this goroutine parked
	s.mu.Unlock()
	<-x.wake
	return x.choice
}

// Resumed is called after a possibly blocking real operation: a goroutine that was woken
// by somebody else's step (not by the scheduler) parks until it is chosen.
func Resumed() {
	s := cur
	if s == nil || !s.active {
		return
	}
	x := s.self()
	s.mu.Lock()
	r := s.running
	s.mu.Unlock()
	if r != x {
		Point("resumed")
	}
}

// Active reports whether a scheduler is driving the current execution.
func Active() bool { s := cur; return s != nil && s.active }

func newSched(prefix []int, maxSteps int) *Sched {
	return &Sched{gs: map[uint64]*g{}, parked: map[*g]string{}, prefix: prefix, MaxSteps: maxSteps}
}

// Run drives the given harness threads (ids 0..n-1) plus whatever goroutines they spawn
// until all harness threads finished and the system is quiescent. Must be called inside a
// bubble. Returns true on deadlock (nothing enabled, threads unfinished, horizon reached).
func (s *Sched) Run(threads ...func()) (deadlock bool) {
	cur = s
	s.active = true
	var wg gosync.WaitGroup
	left := len(threads)
	var lmu gosync.Mutex
	s.nextID = len(threads)
	for i, f := range threads {
		wg.Add(1)
		go func() {
			defer wg.Done()
			s.mu.Lock()
			s.gs[goid()] = &g{id: i, wake: make(chan struct{})}
			s.mu.Unlock()
			Point("start")
			f()
			lmu.Lock()
			left--
			lmu.Unlock()
		}()
	}
	idle := 0
	for {
		synctest.Wait()
		s.mu.Lock()
		var gs []*g
		for x := range s.parked {
			gs = append(gs, x)
		}
		s.mu.Unlock()
		// Default order: the goroutine that parked most recently first. When the running
		// goroutine blocks in an un-instrumented operation (a channel hand-off to a worker it
		// just woke), the default continuation is then that worker - what the Go runtime does
		// with a freshly readied goroutine - and a goroutine that was preempted earlier stays
		// parked until nothing else can run or a free alternative picks it.
		// Goroutines that parked during the same scheduler step are ordered by id: the order
		// in which they reached their points is the Go runtime's, not ours.
		sort.Slice(gs, func(i, j int) bool {
			if gs[i].seq != gs[j].seq {
				return gs[i].seq > gs[j].seq
			}
			return gs[i].id < gs[j].id
		})
		if len(gs) == 0 {
			lmu.Lock()
			l := left
			lmu.Unlock()
			if l == 0 {
				break
			}
			idle++
			if os.Getenv("VERIF_SCHEDX_DEBUG") != "" && idle <= 2 {
				buf := make([]byte, 1<<20)
				buf = buf[:runtime.Stack(buf, true)]
				fmt.Fprintf(os.Stderr, "=== schedx idle #%d at step %d (fake time advances) ===\n%s\n", idle, s.Steps, buf)
			}
			if idle > 22 {
				s.active = false
				return true
			}
			time.Sleep(time.Duration(1<<idle) * time.Millisecond) // fake time: lets the next timer fire
			continue
		}
		idle = 0
		runFirst := false
		if s.running != nil {
			for i, x := range gs {
				if x == s.running {
					copy(gs[1:i+1], gs[:i])
					gs[0] = x
					runFirst = true
					break
				}
			}
		}
		var en []entry
		for _, x := range gs {
			n := 1
			if x.alts > 1 {
				n = x.alts
			}
			for a := 0; a < n; a++ {
				en = append(en, entry{x, a})
			}
		}
		if os.Getenv("VERIF_SCHEDX_DEBUG") == "en" && len(s.Choices) == 0 {
			for _, e := range en {
				fmt.Fprintf(os.Stderr, "EN g%d alt%d what=%s alts=%d\n", e.g.id, e.alt, s.parked[e.g], e.g.alts)
			}
		}
		c := 0
		k := len(s.Choices)
		if k < len(s.prefix) {
			c = s.prefix[k]
			if c >= len(en) {
				s.Diverged = fmt.Sprintf("step %d: schedule asks for choice %d but only %d alternatives are enabled", k, c, len(en))
				c = 0
			}
		}
		s.Choices = append(s.Choices, c)
		s.mu.Lock()
		s.seq = len(s.Choices)
		s.mu.Unlock()
		s.Enabled = append(s.Enabled, len(en))
		s.RunFirst = append(s.RunFirst, runFirst)
		x := en[c].g
		x.choice, x.alts = en[c].alt, 0
		s.mu.Lock()
		what := s.parked[x]
		if en[c].alt > 0 {
			what += "#" + strconv.Itoa(en[c].alt)
		}
		delete(s.parked, x)
		s.running = x
		s.mu.Unlock()
		s.Steps++
		s.Trace = append(s.Trace, strconv.Itoa(x.id)+":"+what+"/"+strconv.Itoa(len(en)))
		if s.MaxSteps > 0 && s.Steps > s.MaxSteps {
			s.Diverged = fmt.Sprintf("execution exceeded %d steps (livelock?)", s.MaxSteps)
			// release everybody and stop controlling
			s.active = false
			s.mu.Lock()
			for y := range s.parked {
				close(y.wake)
			}
			s.parked = map[*g]string{}
			s.mu.Unlock()
			close(x.wake)
			wg.Wait()
			return false
		}
		x.wake <- struct{}{}
	}
	s.active = false
	wg.Wait()
	return false
}

// Body is one execution: it builds the system, calls run(threads...) exactly once and
// returns the observable outcome (compared across replays and handed to Check).
type Body func(t *testing.T, run func(threads ...func()) (deadlock bool)) string

// Config of an exploration.
type Config struct {
	Name        string
	Body        Body
	Preemptions int       // bound on preemptive switches per execution
	MaxExec     int       // cap on executions (0 = none)
	Deadline    time.Time // wall-clock budget
	MaxSteps    int       // per execution step cap (livelock guard), default 5000
	SelRot      uint32    // select rotation for this exploration
	MapOff      uint64    // map iteration offset for this exploration
	ReplayEvery int       // replay every n-th execution (1 = all, default 1)
	Check       func(outcome string, deadlock bool, choices []int) error
	OnExec      func()
	// OnRun is called with the schedule prefix before every execution (used to leave an
	// in-flight record: code under test that spins without ever blocking cannot be stopped
	// from inside the process).
	OnRun func(prefix []int)
	// Shard/Shards split the level-1 subtrees of the schedule tree over worker processes.
	Shard, Shards int
}

// Stats of an exploration.
type Stats struct {
	Name        string         `json:"name"`
	Executions  int            `json:"executions"`
	Replays     int            `json:"replays_identical"`
	MaxSteps    int            `json:"max_steps"`
	Outcomes    map[string]int `json:"-"`
	Distinct    int            `json:"distinct_outcomes"`
	Preemptions int            `json:"preemption_bound"`
	Exhaustive  bool           `json:"exhaustive_within_bound"`
	CapHit      string         `json:"cap_hit,omitempty"`
	Deadlocks   int            `json:"deadlocks"`
	Reproduced  string         `json:"violation_reproduced,omitempty"`
}

// HarnessError is returned for failures of the machinery (nondeterminism, divergence).
type HarnessError struct{ Msg string }

func (e *HarnessError) Error() string { return e.Msg }

// RunOnce executes the body under one schedule.
func RunOnce(t *testing.T, cfg Config, prefix []int) (s *Sched, outcome string, deadlock bool) {
	max := cfg.MaxSteps
	if max == 0 {
		max = 5000
	}
	// No garbage collection cycle may start inside an execution: a goroutine stopped for GC
	// is requeued behind others, which reorders un-instrumented wake-ups and breaks replay.
	runs++
	if runs%64 == 0 {
		debug.SetGCPercent(100)
		runtime.GC()
	}
	debug.SetGCPercent(-1)
	synctest.Test(t, func(t *testing.T) {
		SetDet(true, cfg.SelRot, cfg.MapOff)
		defer SetDet(false, 0, 0)
		s = newSched(prefix, max)
		outcome = cfg.Body(t, func(threads ...func()) bool {
			deadlock = s.Run(threads...)
			return deadlock
		})
	})
	return
}

// Explore enumerates schedules with at most cfg.Preemptions preemptions.
func Explore(t *testing.T, cfg Config) (*Stats, error) {
	st := &Stats{Name: cfg.Name, Outcomes: map[string]int{}, Preemptions: cfg.Preemptions, Exhaustive: true}
	if cfg.ReplayEvery == 0 {
		cfg.ReplayEvery = 1
	}
	var firstErr error
	subtree := -1
	var rec func(prefix []int, used int) bool
	rec = func(prefix []int, used int) bool {
		if cfg.MaxExec > 0 && st.Executions >= cfg.MaxExec {
			st.Exhaustive, st.CapHit = false, "max executions"
			return false
		}
		if !cfg.Deadline.IsZero() && time.Now().After(cfg.Deadline) {
			st.Exhaustive, st.CapHit = false, "time budget"
			return false
		}
		if cfg.OnRun != nil {
			cfg.OnRun(prefix)
		}
		s, out, dl := RunOnce(t, cfg, prefix)
		st.Executions++
		if cfg.OnExec != nil {
			cfg.OnExec()
		}
		if s.Diverged != "" {
			firstErr = &HarnessError{fmt.Sprintf("%s: %s (prefix %v)", cfg.Name, s.Diverged, prefix)}
			return false
		}
		// A violation is judged on the execution that produced it (the oracle looks only at
		// what that execution observed); it is then replayed to say how reproducible it is.
		if cfg.Check != nil {
			if err := cfg.Check(out, dl, s.Choices); err != nil {
				again := 0
				for i := 0; i < 5; i++ {
					_, o2, d2 := RunOnce(t, cfg, s.Choices)
					if cfg.Check(o2, d2, s.Choices) != nil {
						again++
					}
				}
				st.Reproduced = fmt.Sprintf("%d/5", again)
				firstErr = err
				return false
			}
		}
		if st.Executions%cfg.ReplayEvery == 0 {
			s2, out2, dl2 := RunOnce(t, cfg, s.Choices)
			if fmt.Sprint(s.Trace) != fmt.Sprint(s2.Trace) || out != out2 || dl != dl2 {
				at := 0
				for at < len(s.Trace) && at < len(s2.Trace) && s.Trace[at] == s2.Trace[at] {
					at++
				}
				lo := max(0, at-4)
				firstErr = &HarnessError{fmt.Sprintf("%s: replay of schedule %v diverged at step %d: %v vs %v; outcomes %q vs %q", cfg.Name, s.Choices, at, s.Trace[lo:min(len(s.Trace), at+2)], s2.Trace[lo:min(len(s2.Trace), at+2)], out, out2)}
				return false
			}
			st.Replays++
		}
		if s.Steps > st.MaxSteps {
			st.MaxSteps = s.Steps
		}
		if dl {
			st.Deadlocks++
		}
		st.Outcomes[out]++
		// preemptions used along the executed schedule up to each step
		usedAt := used
		for i := len(prefix); i < len(s.Choices); i++ {
			for alt := 1; alt < s.Enabled[i]; alt++ {
				if len(prefix) == 0 && cfg.Shards > 1 {
					subtree++
					if subtree%cfg.Shards != cfg.Shard {
						continue
					}
				}
				cost := usedAt
				if s.RunFirst[i] {
					cost++
				}
				if cost > cfg.Preemptions {
					continue
				}
				p := append(append([]int{}, s.Choices[:i]...), alt)
				if !rec(p, cost) {
					return false
				}
			}
			// the executed choice at step i was 0 for i >= len(prefix): no preemption added
		}
		return true
	}
	// Iterative bounding: everything with 0 deviations, then with at most 1, ... up to the
	// configured bound, so that schedules with few deviations are all covered before the budget
	// goes into the (much larger) next level; the re-execution of the lower levels costs a
	// small fraction of the last one.
	maxBound := cfg.Preemptions
	for b := 0; b <= maxBound; b++ {
		if b < maxBound && maxBound-b > 2 {
			continue // levels that are cheap relative to the next one: start at bound-2
		}
		cfg.Preemptions = b
		subtree = -1
		st.Exhaustive, st.CapHit = true, ""
		if !rec(nil, 0) || firstErr != nil {
			break
		}
	}
	cfg.Preemptions = maxBound
	st.Distinct = len(st.Outcomes)
	return st, firstErr
}
