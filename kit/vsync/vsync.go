// Package vsync: drop-in for "sync" whose blocking goes through vsched.
package vsync

import (
	gosync "sync"
	vsched "verifkit/schedx"
)

type (
	Once   = gosync.Once
	Pool   = gosync.Pool
	Map    = gosync.Map
	Locker = gosync.Locker
)

type Mutex struct {
	mu      gosync.Mutex
	locked  bool
	waiters []chan struct{}
}

func (m *Mutex) TryLock() bool {
	m.mu.Lock()
	defer m.mu.Unlock()
	if m.locked {
		return false
	}
	m.locked = true
	return true
}

func (m *Mutex) Lock() {
	vsched.Point("lock")
	for {
		m.mu.Lock()
		if !m.locked {
			m.locked = true
			m.mu.Unlock()
			return
		}
		w := make(chan struct{})
		m.waiters = append(m.waiters, w)
		m.mu.Unlock()
		<-w
		vsched.Resumed()
	}
}

func (m *Mutex) Unlock() {
	m.mu.Lock()
	if !m.locked {
		m.mu.Unlock()
		panic("vsync: unlock of unlocked mutex")
	}
	m.locked = false
	ws := m.waiters
	m.waiters = nil
	m.mu.Unlock()
	for _, w := range ws {
		close(w)
	}
}

type RWMutex struct {
	mu      gosync.Mutex
	writer  bool
	readers int
	waiters []chan struct{}
}

func (m *RWMutex) wait() {
	w := make(chan struct{})
	m.waiters = append(m.waiters, w)
	m.mu.Unlock()
	<-w
	vsched.Resumed()
}

func (m *RWMutex) wakeAll() {
	ws := m.waiters
	m.waiters = nil
	m.mu.Unlock()
	for _, w := range ws {
		close(w)
	}
}

func (m *RWMutex) Lock() {
	vsched.Point("wlock")
	for {
		m.mu.Lock()
		if !m.writer && m.readers == 0 {
			m.writer = true
			m.mu.Unlock()
			return
		}
		m.wait()
	}
}
func (m *RWMutex) Unlock() {
	m.mu.Lock()
	if !m.writer {
		m.mu.Unlock()
		panic("vsync: unlock of unlocked rwmutex")
	}
	m.writer = false
	m.wakeAll()
}
func (m *RWMutex) RLock() {
	vsched.Point("rlock")
	for {
		m.mu.Lock()
		if !m.writer {
			m.readers++
			m.mu.Unlock()
			return
		}
		m.wait()
	}
}
func (m *RWMutex) RUnlock() {
	m.mu.Lock()
	if m.readers <= 0 {
		m.mu.Unlock()
		panic("vsync: runlock of unlocked rwmutex")
	}
	m.readers--
	m.wakeAll()
}
func (m *RWMutex) TryLock() bool {
	m.mu.Lock()
	defer m.mu.Unlock()
	if !m.writer && m.readers == 0 {
		m.writer = true
		return true
	}
	return false
}
func (m *RWMutex) TryRLock() bool {
	m.mu.Lock()
	defer m.mu.Unlock()
	if !m.writer {
		m.readers++
		return true
	}
	return false
}
func (m *RWMutex) RLocker() gosync.Locker { return (*rlocker)(m) }

type rlocker RWMutex

func (r *rlocker) Lock()   { (*RWMutex)(r).RLock() }
func (r *rlocker) Unlock() { (*RWMutex)(r).RUnlock() }

type WaitGroup struct{ wg gosync.WaitGroup }

func (w *WaitGroup) Add(n int) { w.wg.Add(n) }
func (w *WaitGroup) Done()     { w.wg.Done() }
func (w *WaitGroup) Wait()     { vsched.Point("wg.wait"); w.wg.Wait(); vsched.Resumed() }
func (w *WaitGroup) Go(f func()) {
	w.wg.Add(1)
	go func() { defer w.wg.Done(); vsched.Point("go"); f() }()
}

func OnceFunc(f func()) func()                                 { return gosync.OnceFunc(f) }
func OnceValue[T any](f func() T) func() T                     { return gosync.OnceValue(f) }
func OnceValues[T1, T2 any](f func() (T1, T2)) func() (T1, T2) { return gosync.OnceValues(f) }
func NewCond(l gosync.Locker) *gosync.Cond                     { return gosync.NewCond(l) }

// ChanPoint is the scheduling point the instrumenter puts in front of channel statements.
func ChanPoint() { vsched.Point("chan") }
