package vk

import (
	"crypto/sha1"
	"encoding/hex"
	"encoding/json"
	"fmt"
	"os"
	"os/exec"
	"path/filepath"
	"sort"
	"strings"
	"sync"
)

// The supervisor turns fatal runtime errors of the code under test (stack overflow,
// out of memory, "all goroutines are asleep", unrecovered panics in goroutines the code
// spawned) into violations with a replayable trace. The harness binary re-executes
// itself as a child; explorers record the op sequence each worker is about to execute
// in an in-flight slot file; if the child dies without reaching Finish, the parent
// replays every in-flight sequence in a fresh child and reports those that die again.

const (
	envChild    = "VERIF_CHILD"
	envInflight = "VERIF_INFLIGHT_DIR"
)

func supervise(prop, level string) {
	if os.Getenv(envChild) != "" || os.Getenv("VERIF_NO_SUPERVISOR") != "" {
		return
	}
	dir, err := os.MkdirTemp(filepath.Join(Root(), "build"), "inflight-")
	if err != nil {
		_ = os.MkdirAll(filepath.Join(Root(), "build"), 0o755)
		dir, err = os.MkdirTemp(filepath.Join(Root(), "build"), "inflight-")
		if err != nil {
			return // run unsupervised
		}
	}
	defer os.RemoveAll(dir)
	code, finished := runChild(dir, os.Getenv("VERIF_REPLAY"), false)
	if finished {
		os.RemoveAll(dir)
		os.Exit(code)
	}
	// the child died. Collect the in-flight sequences.
	fmt.Fprintf(os.Stderr, "supervisor: %s child died (exit %d) before finishing; replaying in-flight sequences\n", prop, code)
	if os.Getenv("VERIF_REPLAY") != "" {
		// a replay that kills the process reproduces a crash violation
		fmt.Printf("VIOLATION property=%s replay=%s\n", prop, os.Getenv("VERIF_REPLAY"))
		os.RemoveAll(dir)
		os.Exit(1)
	}
	ents, _ := os.ReadDir(dir)
	type cand struct {
		scenario string
		trace    []string
	}
	seen := map[string]bool{}
	var cands []cand
	for _, e := range ents {
		if !strings.HasPrefix(e.Name(), "slot-") {
			continue
		}
		b, err := os.ReadFile(filepath.Join(dir, e.Name()))
		if err != nil || len(b) == 0 {
			continue
		}
		lines := strings.Split(strings.TrimRight(string(b), "\n"), "\n")
		if seen[string(b)] {
			continue
		}
		seen[string(b)] = true
		cands = append(cands, cand{lines[0], lines[1:]})
	}
	sort.Slice(cands, func(i, j int) bool { return len(cands[i].trace) < len(cands[j].trace) })
	r := &Run{Prop: prop, Level: level, Tier: "quick", Root: Root(), cov: map[string]any{}, seenFP: map[string]bool{}}
	if os.Getenv("VERIF_TIER") == "thorough" {
		r.Tier = "thorough"
	}
	confirmed := 0
	for _, c := range cands {
		h := sha1.Sum([]byte(c.scenario + "\x00" + strings.Join(c.trace, "\x00")))
		p := filepath.Join(Root(), "replays", prop+"-crash-"+hex.EncodeToString(h[:5])+".json")
		art := map[string]any{"property": prop, "fingerprint": "fatal-crash", "detail": "the process died (fatal runtime error) while executing the last op of this sequence",
			"trace": c.trace, "scenario": c.scenario, "replay_cmd": fmt.Sprintf("bin/check %s --replay %s", prop, p)}
		b, _ := json.MarshalIndent(art, "", " ")
		_ = os.MkdirAll(filepath.Dir(p), 0o755)
		_ = os.WriteFile(p, b, 0o644)
		sub, _ := os.MkdirTemp(dir, "confirm-")
		died, viol := 0, 0
		for i := 0; i < 2; i++ {
			c, fin := runChild(sub, p, true)
			if !fin {
				died++
			} else if c == 1 {
				viol++
			}
		}
		if viol == 2 {
			confirmed++
			r.Report(&Violation{Fingerprint: "violation-on-replay:" + lastOf(c.trace), Detail: "in-flight sequence of a crashed exploration violates the property when replayed (see bin/check --replay)", Trace: c.trace, Scenario: c.scenario})
		} else if died == 2 {
			confirmed++
			fmt.Fprintf(os.Stderr, "supervisor: confirmed fatal crash, scenario %q, trace %v\n", c.scenario, c.trace)
			r.Report(&Violation{Fingerprint: "fatal-crash:" + lastOf(c.trace), Detail: "process died (fatal runtime error, e.g. unbounded recursion) executing the last op of the trace; replay confirmed twice", Trace: c.trace, Scenario: c.scenario})
			if confirmed >= 3 {
				break
			}
		} else {
			_ = os.Remove(p)
		}
	}
	if confirmed == 0 {
		r.HarnessError("child process died (exit %d) and no in-flight sequence reproduced the crash", code)
	}
	r.cov["states"], r.cov["transitions"], r.cov["traces_validated_against_impl"] = 1, len(cands)+1, len(cands)
	r.cov["evaluations"], r.cov["distinct_nontrivial"] = len(cands)+1, 2
	r.cov["rule"] = "supervisor: exploration child died; in-flight sequences replayed"
	r.cov["exhaustive"] = false
	for _, c := range cands {
		s, _ := r.cov["samples"].([]any)
		r.cov["samples"] = append(s, map[string]any{"scenario": c.scenario, "ops": c.trace})
	}
	code = r.finish()
	os.RemoveAll(dir)
	os.Exit(code)
}

func lastOf(t []string) string {
	if len(t) == 0 {
		return ""
	}
	return t[len(t)-1]
}

func runChild(dir, replay string, quiet bool) (code int, finished bool) {
	marker := filepath.Join(dir, "finished")
	_ = os.Remove(marker)
	cmd := exec.Command(os.Args[0], os.Args[1:]...)
	cmd.Env = append(os.Environ(), envChild+"=1", envInflight+"="+dir)
	if replay != "" {
		cmd.Env = append(cmd.Env, "VERIF_REPLAY="+replay)
	}
	cmd.Stdout, cmd.Stdin = os.Stdout, nil
	if quiet {
		cmd.Stdout = nil
	}
	// keep the tail of stderr small: a Go fatal error dumps every goroutine
	tail := &tailWriter{max: 6000}
	cmd.Stderr = tail
	err := cmd.Run()
	if !quiet {
		os.Stderr.Write(tail.bytes())
	}
	code = 0
	if err != nil {
		code = 2
		if ee, ok := err.(*exec.ExitError); ok {
			code = ee.ExitCode()
		}
	}
	_, serr := os.Stat(marker)
	return code, serr == nil
}

type tailWriter struct {
	mu   sync.Mutex
	head []byte
	buf  []byte
	max  int
	drop int
}

func (t *tailWriter) Write(p []byte) (int, error) {
	t.mu.Lock()
	defer t.mu.Unlock()
	if len(t.head) < t.max {
		n := t.max - len(t.head)
		if n > len(p) {
			n = len(p)
		}
		t.head = append(t.head, p[:n]...)
		p2 := p[n:]
		t.buf = append(t.buf, p2...)
	} else {
		t.buf = append(t.buf, p...)
	}
	if len(t.buf) > t.max {
		t.drop += len(t.buf) - t.max
		t.buf = t.buf[len(t.buf)-t.max:]
	}
	return len(p), nil
}

func (t *tailWriter) bytes() []byte {
	t.mu.Lock()
	defer t.mu.Unlock()
	out := append([]byte{}, t.head...)
	if t.drop > 0 {
		out = append(out, []byte(fmt.Sprintf("\n... [%d bytes of stderr dropped] ...\n", t.drop))...)
	}
	return append(out, t.buf...)
}

var inflightFiles sync.Map // slot -> *os.File

// Inflight records the sequence a worker slot is about to execute (no-op when unsupervised).
func Inflight(slot int, scenario string, path []string) {
	dir := os.Getenv(envInflight)
	if dir == "" {
		return
	}
	var f *os.File
	if v, ok := inflightFiles.Load(slot); ok {
		f = v.(*os.File)
	} else {
		var err error
		f, err = os.OpenFile(filepath.Join(dir, fmt.Sprintf("slot-%d", slot)), os.O_CREATE|os.O_RDWR, 0o644)
		if err != nil {
			return
		}
		inflightFiles.Store(slot, f)
	}
	b := []byte(scenario + "\n" + strings.Join(path, "\n") + "\n")
	_ = f.Truncate(0)
	_, _ = f.WriteAt(b, 0)
}

func markFinished() {
	if dir := os.Getenv(envInflight); dir != "" {
		_ = os.WriteFile(filepath.Join(dir, "finished"), []byte("ok"), 0o644)
	}
}
