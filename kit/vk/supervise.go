package vk

import (
	"crypto/sha1"
	"encoding/binary"
	"encoding/hex"
	"encoding/json"
	"fmt"
	"os"
	"os/exec"
	"path/filepath"
	"runtime"
	"slices"
	"sort"
	"strconv"
	"strings"
	"sync"
	"sync/atomic"
	"syscall"
	"time"
	"unsafe"
)

// The supervisor turns fatal runtime errors of the code under test (stack overflow,
// out of memory, "all goroutines are asleep", unrecovered panics in goroutines the code
// spawned) into violations with a replayable trace. The harness binary re-executes
// itself as a child; explorers record the op sequence each worker is about to execute
// in an in-flight slot file; if the child dies without reaching Finish, the parent
// replays every in-flight sequence in a fresh child and reports those that die again.

const (
	envChild    = "VERIF_CHILD"
	envInflight = "VERIF_INFLIGHT_DIR"
)

func supervise(prop, level string) {
	if os.Getenv(envChild) != "" || os.Getenv("VERIF_NO_SUPERVISOR") != "" {
		return
	}
	dir, err := os.MkdirTemp(filepath.Join(Root(), "build"), "inflight-")
	if err != nil {
		_ = os.MkdirAll(filepath.Join(Root(), "build"), 0o755)
		dir, err = os.MkdirTemp(filepath.Join(Root(), "build"), "inflight-")
		if err != nil {
			return // run unsupervised
		}
	}
	defer os.RemoveAll(dir)
	first := runChildW(dir, os.Getenv("VERIF_REPLAY"), false, stallLimit())
	code, finished := first.code, first.finished
	if finished {
		os.RemoveAll(dir)
		os.Exit(code)
	}
	// the child died or stalled. Collect the in-flight sequences.
	what := "died"
	if first.stalled {
		what = fmt.Sprintf("made no progress for %v (hang or deadlock) and was killed", stallLimit())
	}
	fmt.Fprintf(os.Stderr, "supervisor: %s child %s (exit %d) before finishing; replaying in-flight sequences\n", prop, what, code)
	if os.Getenv("VERIF_REPLAY") != "" {
		// a replay that kills the process reproduces a crash violation
		fmt.Printf("VIOLATION property=%s replay=%s\n", prop, os.Getenv("VERIF_REPLAY"))
		os.RemoveAll(dir)
		os.Exit(1)
	}
	ents, _ := os.ReadDir(dir)
	type cand struct {
		scenario string
		trace    []string
	}
	seen := map[string]bool{}
	var cands []cand
	for _, e := range ents {
		if !strings.HasPrefix(e.Name(), "slot-") {
			continue
		}
		if len(first.hungSlots) > 0 && !slices.Contains(first.hungSlots, e.Name()) {
			continue
		}
		b := readSlot(filepath.Join(dir, e.Name()))
		if len(b) == 0 {
			continue
		}
		lines := strings.Split(strings.TrimRight(string(b), "\n"), "\n")
		if seen[string(b)] {
			continue
		}
		seen[string(b)] = true
		cands = append(cands, cand{lines[0], lines[1:]})
	}
	sort.Slice(cands, func(i, j int) bool { return len(cands[i].trace) < len(cands[j].trace) })
	r := &Run{Prop: prop, Level: level, Tier: "quick", Root: Root(), cov: map[string]any{}, seenFP: map[string]bool{}}
	if os.Getenv("VERIF_TIER") == "thorough" {
		r.Tier = "thorough"
	}
	confirmed := 0
	for _, c := range cands {
		h := sha1.Sum([]byte(c.scenario + "\x00" + strings.Join(c.trace, "\x00")))
		p := filepath.Join(Root(), "replays", prop+"-crash-"+hex.EncodeToString(h[:5])+".json")
		art := map[string]any{"property": prop, "fingerprint": "fatal-crash", "detail": "the process died (fatal runtime error) while executing the last op of this sequence",
			"trace": c.trace, "scenario": c.scenario, "replay_cmd": fmt.Sprintf("bin/check %s --replay %s", prop, p)}
		b, _ := json.MarshalIndent(art, "", " ")
		_ = os.MkdirAll(filepath.Dir(p), 0o755)
		_ = os.WriteFile(p, b, 0o644)
		sub, _ := os.MkdirTemp(dir, "confirm-")
		died, viol, hung := 0, 0, 0
		for i := 0; i < 2; i++ {
			cr := runChildW(sub, p, true, 15*time.Second, 20*time.Second)
			if cr.stalled {
				hung++
				died++
			} else if !cr.finished {
				died++
			} else if cr.code == 1 {
				viol++
			}
		}
		if viol == 2 {
			confirmed++
			r.Report(&Violation{Fingerprint: "violation-on-replay:" + lastOf(c.trace), Detail: "in-flight sequence of a crashed exploration violates the property when replayed (see bin/check --replay)", Trace: c.trace, Scenario: c.scenario})
		} else if died == 2 {
			confirmed++
			fmt.Fprintf(os.Stderr, "supervisor: confirmed (died twice on replay, hung=%d), scenario %q, trace %v\n", hung, c.scenario, c.trace)
			if hung == 2 {
				r.Report(&Violation{Fingerprint: "hang:" + lastOf(c.trace), Detail: "the real code never returns (deadlock or unbounded loop) while executing this sequence; replay confirmed twice", Trace: c.trace, Scenario: c.scenario})
			} else {
				r.Report(&Violation{Fingerprint: "fatal-crash:" + lastOf(c.trace), Detail: "process died (fatal runtime error, e.g. unbounded recursion) executing the last op of the trace; replay confirmed twice", Trace: c.trace, Scenario: c.scenario})
			}
			if confirmed >= 3 || hung == 2 {
				break
			}
		} else {
			_ = os.Remove(p)
		}
	}
	if confirmed == 0 {
		r.HarnessError("child process died (exit %d) and no in-flight sequence reproduced the crash", code)
	}
	r.cov["states"], r.cov["transitions"], r.cov["traces_validated_against_impl"] = 1, len(cands)+1, len(cands)
	r.cov["evaluations"], r.cov["distinct_nontrivial"] = len(cands)+1, 2
	r.cov["rule"] = "supervisor: exploration child died; in-flight sequences replayed"
	r.cov["exhaustive"] = false
	for _, c := range cands {
		s, _ := r.cov["samples"].([]any)
		r.cov["samples"] = append(s, map[string]any{"scenario": c.scenario, "ops": c.trace})
	}
	code = r.finish()
	os.RemoveAll(dir)
	os.Exit(code)
}

func lastOf(t []string) string {
	if len(t) == 0 {
		return ""
	}
	return t[len(t)-1]
}

// childResult describes how a child ended.
type childResult struct {
	code      int
	finished  bool
	stalled   bool
	hungSlots []string
}

func stallLimit() time.Duration {
	if v := os.Getenv("VERIF_STALL_S"); v != "" {
		if n, err := strconv.Atoi(v); err == nil && n > 0 {
			return time.Duration(n) * time.Second
		}
	}
	return 60 * time.Second
}

func readBeat(dir string) uint64 {
	b, err := os.ReadFile(filepath.Join(dir, "beat"))
	if err != nil || len(b) < 8 {
		return 0
	}
	return binary.LittleEndian.Uint64(b)
}

func runChild(dir, replay string, quiet bool) (code int, finished bool) {
	r := runChildW(dir, replay, quiet, stallLimit())
	return r.code, r.finished
}

func runChildW(dir, replay string, quiet bool, stall time.Duration, hard ...time.Duration) childResult {
	started := time.Now()
	marker := filepath.Join(dir, "finished")
	_ = os.Remove(marker)
	_ = os.Remove(filepath.Join(dir, "beat"))
	// the child dies with the supervisor (see Sharded for the pinned thread)
	runtime.LockOSThread()
	defer runtime.UnlockOSThread()
	cmd := exec.Command(os.Args[0], os.Args[1:]...)
	cmd.SysProcAttr = &syscall.SysProcAttr{Pdeathsig: syscall.SIGKILL}
	cmd.Env = append(os.Environ(), envChild+"=1", envInflight+"="+dir)
	if replay != "" {
		cmd.Env = append(cmd.Env, "VERIF_REPLAY="+replay)
	}
	cmd.Stdout, cmd.Stdin = os.Stdout, nil
	if quiet {
		cmd.Stdout = nil
	}
	// keep the tail of stderr small: a Go fatal error dumps every goroutine
	tail := &tailWriter{max: 6000}
	cmd.Stderr = tail
	if err := cmd.Start(); err != nil {
		return childResult{code: 2}
	}
	done := make(chan error, 1)
	go func() { done <- cmd.Wait() }()
	var res childResult
	last, lastChange := uint64(0), time.Now()
	type slotState struct {
		seq    uint64
		change time.Time
	}
	slots := map[string]*slotState{}
	tick := time.NewTicker(500 * time.Millisecond)
	defer tick.Stop()
	var err error
loop:
	for {
		select {
		case err = <-done:
			break loop
		case <-tick.C:
			if b := readBeat(dir); b != last {
				last, lastChange = b, time.Now()
			}
			// a busy worker slot whose record has not changed for the stall limit is hung, even
			// while other workers still make progress
			slotHung := false
			if ents, err := os.ReadDir(dir); err == nil {
				for _, e := range ents {
					if !strings.HasPrefix(e.Name(), "slot-") {
						continue
					}
					data, seq := readSlotSeq(filepath.Join(dir, e.Name()))
					st := slots[e.Name()]
					if st == nil || st.seq != seq {
						slots[e.Name()] = &slotState{seq, time.Now()}
						continue
					}
					if len(data) > 0 && time.Since(st.change) > stall {
						slotHung = true
						res.hungSlots = append(res.hungSlots, e.Name())
					}
				}
			}
			// the watchdog arms with the first heartbeat (start-up and build time do not count)
			if slotHung || (last != 0 && time.Since(lastChange) > stall) || (len(hard) > 0 && time.Since(started) > hard[0]) {
				res.stalled = true
				_ = cmd.Process.Signal(syscall.SIGQUIT)
				select {
				case err = <-done:
				case <-time.After(10 * time.Second):
					_ = cmd.Process.Kill()
					err = <-done
				}
				break loop
			}
		}
	}
	if !quiet {
		os.Stderr.Write(tail.bytes())
	}
	if err != nil {
		res.code = 2
		if ee, ok := err.(*exec.ExitError); ok {
			res.code = ee.ExitCode()
		}
	}
	_, serr := os.Stat(marker)
	res.finished = serr == nil && !res.stalled
	return res
}

type tailWriter struct {
	mu   sync.Mutex
	head []byte
	buf  []byte
	max  int
	drop int
}

func (t *tailWriter) Write(p []byte) (int, error) {
	t.mu.Lock()
	defer t.mu.Unlock()
	if len(t.head) < t.max {
		n := t.max - len(t.head)
		if n > len(p) {
			n = len(p)
		}
		t.head = append(t.head, p[:n]...)
		p2 := p[n:]
		t.buf = append(t.buf, p2...)
	} else {
		t.buf = append(t.buf, p...)
	}
	if len(t.buf) > t.max {
		t.drop += len(t.buf) - t.max
		t.buf = t.buf[len(t.buf)-t.max:]
	}
	return len(p), nil
}

func (t *tailWriter) bytes() []byte {
	t.mu.Lock()
	defer t.mu.Unlock()
	out := append([]byte{}, t.head...)
	if t.drop > 0 {
		out = append(out, []byte(fmt.Sprintf("\n... [%d bytes of stderr dropped] ...\n", t.drop))...)
	}
	return append(out, t.buf...)
}

var (
	beatOnce sync.Once
	beatPtr  *uint64
)

// Beat tells the supervisor's watchdog that the harness is making progress.
func Beat() {
	dir := os.Getenv(envInflight)
	if dir == "" {
		return
	}
	beatOnce.Do(func() {
		f, err := os.OpenFile(filepath.Join(dir, "beat"), os.O_CREATE|os.O_RDWR, 0o644)
		if err != nil {
			return
		}
		defer f.Close()
		if err := f.Truncate(8); err != nil {
			return
		}
		m, err := syscall.Mmap(int(f.Fd()), 0, 8, syscall.PROT_READ|syscall.PROT_WRITE, syscall.MAP_SHARED)
		if err != nil {
			return
		}
		beatPtr = (*uint64)(unsafe.Pointer(&m[0]))
	})
	if beatPtr != nil {
		atomic.AddUint64(beatPtr, 1)
	}
}

const slotSize = 1 << 15

var inflightMaps sync.Map // slot -> []byte (MAP_SHARED mapping of the slot file)

// Inflight records the sequence a worker slot is about to execute (no-op when
// unsupervised). The record lives in a MAP_SHARED file mapping: writing it costs no
// system call and the page survives the death of the process.
func Inflight(slot int, scenario string, path []string) {
	dir := os.Getenv(envInflight)
	if dir == "" {
		return
	}
	Beat()
	var m []byte
	if v, ok := inflightMaps.Load(slot); ok {
		m = v.([]byte)
	} else {
		f, err := os.OpenFile(filepath.Join(dir, fmt.Sprintf("slot-%d", slot)), os.O_CREATE|os.O_RDWR, 0o644)
		if err != nil {
			return
		}
		defer f.Close()
		if err := f.Truncate(slotSize); err != nil {
			return
		}
		m, err = syscall.Mmap(int(f.Fd()), 0, slotSize, syscall.PROT_READ|syscall.PROT_WRITE, syscall.MAP_SHARED)
		if err != nil {
			return
		}
		inflightMaps.Store(slot, m)
	}
	n := 12
	put := func(s string) {
		if n+len(s)+1 <= slotSize {
			n += copy(m[n:], s)
			m[n] = '\n'
			n++
		}
	}
	m[0], m[1], m[2], m[3] = 0, 0, 0, 0
	binary.LittleEndian.PutUint64(m[4:12], binary.LittleEndian.Uint64(m[4:12])+1)
	if scenario == "" && len(path) == 0 {
		return // idle: length stays 0
	}
	put(scenario)
	for _, p := range path {
		put(p)
	}
	l := n - 12
	m[0], m[1], m[2], m[3] = byte(l), byte(l>>8), byte(l>>16), byte(l>>24)
}

// TouchSlots tells the supervisor that every busy worker slot is still making progress on
// its current record. Only for harnesses that bound the calls of the code under test with
// their own limits (and therefore cannot hang unnoticed).
func TouchSlots() {
	if os.Getenv(envInflight) == "" {
		return
	}
	Beat()
	inflightMaps.Range(func(_, v any) bool {
		m := v.([]byte)
		binary.LittleEndian.PutUint64(m[4:12], binary.LittleEndian.Uint64(m[4:12])+1)
		return true
	})
}

// InflightIdle marks a worker slot as waiting for work.
func InflightIdle(slot int) { Inflight(slot, "", nil) }

func readSlot(path string) []byte {
	b, _ := readSlotSeq(path)
	return b
}

func readSlotSeq(path string) ([]byte, uint64) {
	b, err := os.ReadFile(path)
	if err != nil || len(b) < 12 {
		return nil, 0
	}
	seq := binary.LittleEndian.Uint64(b[4:12])
	l := int(b[0]) | int(b[1])<<8 | int(b[2])<<16 | int(b[3])<<24
	if l <= 0 || 12+l > len(b) {
		return nil, seq
	}
	return b[12 : 12+l], seq
}

func markFinished() {
	if dir := os.Getenv(envInflight); dir != "" {
		_ = os.WriteFile(filepath.Join(dir, "finished"), []byte("ok"), 0o644)
	}
}
