package vk

import (
	"encoding/json"
	"fmt"
	"os"
	"os/exec"
	"path/filepath"
	"runtime"
	"strconv"
	"strings"
	"sync"
	"syscall"
)

type shardFile struct {
	Cov     map[string]any `json:"cov"`
	Viols   []*Violation   `json:"viols"`
	Harness []string       `json:"harness"`
	Assume  []string       `json:"assume"`
}

// Sharded splits a check over n worker processes. In a worker (VERIF_SHARD=i/n) it returns
// (i, n, true): the caller explores its share and calls Finish, which hands the results to
// the parent instead of writing evidence. In the parent it runs the workers (the same
// binary with the same arguments), merges their coverage counters (ints are summed, keys
// starting with "distinct" take the maximum, "exhaustive" is and-ed, samples/explorations
// are concatenated), re-reports their violations and returns (0, n, false).
func (r *Run) Sharded(n int) (shard, shards int, child bool) {
	if v := os.Getenv("VERIF_SHARD"); v != "" {
		p := strings.Split(v, "/")
		i, _ := strconv.Atoi(p[0])
		m, _ := strconv.Atoi(p[1])
		r.shardOut = os.Getenv("VERIF_SHARD_OUT")
		return i, m, true
	}
	if r.Replay != "" || n <= 1 {
		return 0, 1, false
	}
	dir, err := os.MkdirTemp(filepath.Join(r.Root, "build"), "shards-")
	if err != nil {
		return 0, 1, false
	}
	defer os.RemoveAll(dir)
	var wg sync.WaitGroup
	for i := 0; i < n; i++ {
		wg.Add(1)
		go func() {
			defer wg.Done()
			out := filepath.Join(dir, fmt.Sprintf("shard-%d.json", i))
			// A shard must not outlive this process (a supervisor may kill it while shards
			// spin): the kernel kills the shard when the thread that started it goes away,
			// so that thread is pinned for as long as the shard runs.
			runtime.LockOSThread()
			defer runtime.UnlockOSThread()
			cmd := exec.Command(os.Args[0], os.Args[1:]...)
			cmd.SysProcAttr = &syscall.SysProcAttr{Pdeathsig: syscall.SIGKILL}
			cmd.Env = append(os.Environ(), "VERIF_CHILD=1", fmt.Sprintf("VERIF_SHARD=%d/%d", i, n), "VERIF_SHARD_OUT="+out)
			tail := &tailWriter{max: 3000}
			cmd.Stderr = tail
			err := cmd.Run()
			b, rerr := os.ReadFile(out)
			if rerr != nil {
				r.HarnessError("shard %d/%d produced no result (%v): %s", i, n, err, string(tail.bytes()))
				return
			}
			var sf shardFile
			if err := json.Unmarshal(b, &sf); err != nil {
				r.HarnessError("shard %d/%d: bad result file: %v", i, n, err)
				return
			}
			r.mergeShard(&sf)
		}()
	}
	wg.Wait()
	return 0, n, false
}

func (r *Run) mergeShard(sf *shardFile) {
	for _, v := range sf.Viols {
		r.Report(v)
	}
	r.mu.Lock()
	defer r.mu.Unlock()
	r.harnessE = append(r.harnessE, sf.Harness...)
	for _, a := range sf.Assume {
		dup := false
		for _, x := range r.assume {
			dup = dup || x == a
		}
		if !dup {
			r.assume = append(r.assume, a)
		}
	}
	for k, v := range sf.Cov {
		switch x := v.(type) {
		case float64:
			cur, _ := r.cov[k].(int)
			if strings.HasPrefix(k, "distinct") || strings.HasSuffix(k, "_bound") || strings.HasPrefix(k, "max_") {
				if int(x) > cur {
					r.cov[k] = int(x)
				}
			} else {
				r.cov[k] = cur + int(x)
			}
		case bool:
			cur, ok := r.cov[k].(bool)
			if !ok {
				cur = true
			}
			r.cov[k] = cur && x
		case []any:
			cur, _ := r.cov[k].([]any)
			if k == "samples" && len(cur) >= 12 {
				continue
			}
			r.cov[k] = append(cur, x...)
		default:
			if _, ok := r.cov[k]; !ok {
				r.cov[k] = v
			}
		}
	}
}

// writeShard hands a worker's results to the parent.
func (r *Run) writeShard() int {
	sf := shardFile{Cov: r.cov, Viols: r.viols, Harness: r.harnessE, Assume: r.assume}
	b, err := json.Marshal(sf)
	if err != nil {
		fmt.Fprintln(os.Stderr, "shard marshal:", err)
		return 2
	}
	if err := os.WriteFile(r.shardOut, b, 0o644); err != nil {
		fmt.Fprintln(os.Stderr, "shard write:", err)
		return 2
	}
	return 0
}
