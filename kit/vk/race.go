package vk

import (
	"os"
	"strings"
)

// FoldRace folds in the result of the free-running race-detector pass of the same scenario
// bodies (log file named by VERIF_RACE_LOG). The cooperative scheduler's hand-offs are
// happens-before edges that blind the race detector, so unsynchronised accesses - which the
// scheduler, preempting only at synchronisation operations, cannot interleave - are looked
// for there. A report whose two accesses are both in harness code (path marker) is the
// harness's own and is ignored.
func FoldRace(r *Run, harnessMarker string) {
	if os.Getenv("VERIF_SHARD") != "" || r.Replay != "" {
		return
	}
	b, err := os.ReadFile(os.Getenv("VERIF_RACE_LOG"))
	if err != nil {
		r.Set("race_pass", "not run")
		return
	}
	log := string(b)
	n := strings.Count(log, "WARNING: DATA RACE")
	r.Set("race_pass_reports", n)
	if i := strings.Index(log, "RACE-PASS rounds"); i >= 0 {
		r.Set("race_pass", strings.TrimSpace(strings.SplitN(log[i:], "\n", 2)[0]))
	} else {
		r.Set("race_pass", "did not complete")
	}
	ignored := 0
	for _, rep := range strings.Split(log, "WARNING: DATA RACE")[1:] {
		// the two racing accesses: first non-runtime frame of each of the two stacks. A race
		// between two accesses that are both in harness code is the harness's, not cesium's.
		var tops []string
		want := false
		for _, l := range strings.Split(rep, "\n") {
			t := strings.TrimSpace(l)
			if strings.Contains(t, " at 0x") && strings.Contains(t, "by goroutine") {
				want = true
				continue
			}
			if want && strings.Contains(t, "(") && !strings.HasPrefix(t, "/") && !strings.HasPrefix(t, "runtime.") && !strings.HasPrefix(t, "internal/") {
				tops = append(tops, t)
				want = false
			}
		}
		harnessOnly := len(tops) > 0
		for _, tp := range tops {
			if !strings.Contains(tp, harnessMarker) {
				harnessOnly = false
			}
		}
		if harnessOnly {
			ignored++
			continue
		}
		var frames []string
		for _, l := range strings.Split(rep, "\n") {
			l = strings.TrimSpace(l)
			if strings.HasPrefix(l, "github.com/synnaxlabs/") && strings.Contains(l, "(") {
				f := l[:strings.Index(l, "(")]
				f = f[strings.LastIndex(f, "/")+1:]
				if len(frames) < 2 && (len(frames) == 0 || frames[0] != f) {
					frames = append(frames, f)
				}
			}
		}
		v := Violationf("data-race:"+strings.Join(frames, "|"), "the race detector reports:%s", rep[:min(len(rep), 1800)])
		v.Scenario, v.Trace = "free-running -race pass", []string{"go test -race (see detail)"}
		r.Report(v)
	}
	r.Set("race_reports_between_harness_accesses_ignored", ignored)
}
