package vk

import (
	"bytes"
	"context"
	"crypto/sha1"
	"encoding/hex"
	"encoding/json"
	"fmt"
	"os"
	"os/exec"
	"path/filepath"
	"strings"
	"syscall"
	"time"
)

// FreshReplay executes the violating sequence again in a fresh process - this program with
// VERIF_REPLAY pointing at the artefact, exactly what `bin/check <id> --replay` does - up to
// times times, and reports whether one of them showed a violation (or a listed finding) too.
// Harnesses whose code under test runs real goroutines, timers and gossip use it before
// reporting: what they print as VIOLATION is then always something a replay shows again, and
// what a long-lived exploring process observes once (thousands of clusters opened and closed
// in it before) but a fresh process never does is kept as an unconfirmed observation.
func (r *Run) FreshReplay(v *Violation, times int) bool {
	if r.Replay != "" || os.Getenv("VERIF_NO_FRESH_REPLAY") != "" {
		return true
	}
	h := sha1.Sum([]byte(v.Fingerprint))
	dir := filepath.Join(r.Root, "build", "tmp")
	_ = os.MkdirAll(dir, 0o755)
	p := filepath.Join(dir, fmt.Sprintf("fresh-%s-%s-%d.json", r.Prop, hex.EncodeToString(h[:5]), os.Getpid()))
	art := map[string]any{"property": r.Prop, "tier": r.Tier, "seed": r.Seed, "fingerprint": v.Fingerprint,
		"detail": v.Detail, "trace": v.Trace, "scenario": v.Scenario}
	b, _ := json.MarshalIndent(art, "", " ")
	if err := os.WriteFile(p, b, 0o644); err != nil {
		return true
	}
	defer os.Remove(p)
	for i := 0; i < times; i++ {
		Beat()
		TouchSlots()
		c, cancel := context.WithTimeout(context.Background(), 10*time.Minute)
		cmd := exec.CommandContext(c, os.Args[0], os.Args[1:]...)
		cmd.SysProcAttr = &syscall.SysProcAttr{Pdeathsig: syscall.SIGKILL}
		var env []string
		for _, e := range os.Environ() {
			if strings.HasPrefix(e, "VERIF_SHARD") || strings.HasPrefix(e, "VERIF_PART") || strings.HasPrefix(e, envInflight+"=") {
				continue
			}
			env = append(env, e)
		}
		cmd.Env = append(env, "VERIF_REPLAY="+p, envChild+"=1", "VERIF_FRESH_REPLAY=1")
		var out bytes.Buffer
		cmd.Stdout, cmd.Stderr = &out, nil
		done := make(chan struct{})
		go func() {
			for {
				select {
				case <-done:
					return
				case <-time.After(5 * time.Second):
					Beat()
					TouchSlots()
				}
			}
		}()
		_ = cmd.Run()
		close(done)
		cancel()
		if strings.Contains(out.String(), "VIOLATION property=") || strings.Contains(out.String(), "KNOWN-FINDING:") {
			return true
		}
	}
	return false
}

// Unconfirmed records an observation that was not reported because it did not occur again.
func (r *Run) Unconfirmed(what string) {
	r.mu.Lock()
	defer r.mu.Unlock()
	list, _ := r.cov["unconfirmed_observation_list"].([]any)
	if len(list) < 10 {
		r.cov["unconfirmed_observation_list"] = append(list, what)
	}
	n, _ := r.cov["unconfirmed_observations"].(int)
	r.cov["unconfirmed_observations"] = n + 1
}
