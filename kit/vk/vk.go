// Package vk is the common runtime of every check: tier/seed/budget handling,
// violation artefacts, known-findings matching, evidence files, exit codes.
package vk

import (
	"crypto/sha1"
	"encoding/hex"
	"encoding/json"
	"fmt"
	"os"
	"path/filepath"
	"sort"
	"strconv"
	"strings"
	"sync"
	"sync/atomic"
	"time"
)

// Violation is one counterexample to the property.
type Violation struct {
	// Fingerprint identifies the specific failing case after normalisation. It is what
	// KNOWN_FINDINGS.txt lists; a different fingerprint of the same property is still
	// reported.
	Fingerprint string `json:"fingerprint"`
	// Detail is the human readable explanation (expected vs got).
	Detail string `json:"detail"`
	// Trace is the replayable artefact: op list, schedule, crash prefix...
	Trace []string `json:"trace"`
	// Scenario names the harness part that produced it (so --replay can dispatch).
	Scenario string `json:"scenario,omitempty"`
}

func (v *Violation) Error() string { return v.Fingerprint + ": " + v.Detail }

// Violationf builds a violation.
func Violationf(fp string, format string, a ...any) *Violation {
	return &Violation{Fingerprint: fp, Detail: fmt.Sprintf(format, a...)}
}

// Run is one invocation of a check.
type Run struct {
	Prop     string
	Level    string
	Tier     string
	Seed     int64
	Root     string
	Start    time.Time
	Budget   time.Duration
	Replay   string
	mu       sync.Mutex
	cov      map[string]any
	assume   []string
	viols    []*Violation
	seenFP   map[string]bool
	harnessE []string
	shardOut string
}

// Root returns the verif root directory.
func Root() string {
	if r := os.Getenv("VERIF_ROOT"); r != "" {
		return r
	}
	return "/verif"
}

// New reads the environment (VERIF_TIER, VERIF_SEED, VERIF_BUDGET_S, VERIF_REPLAY).
func New(prop, level string) *Run {
	supervise(prop, level)
	r := &Run{Prop: prop, Level: level, Tier: "quick", Root: Root(), Start: time.Now(),
		cov: map[string]any{}, seenFP: map[string]bool{}}
	if t := os.Getenv("VERIF_TIER"); t == "thorough" {
		r.Tier = t
	}
	if s := os.Getenv("VERIF_SEED"); s != "" {
		if n, err := strconv.ParseInt(s, 10, 64); err == nil {
			r.Seed = n
		}
	}
	r.Budget = 100 * time.Second
	if r.Tier == "thorough" {
		r.Budget = 20 * time.Minute
	}
	if s := os.Getenv("VERIF_BUDGET_S"); s != "" {
		if n, err := strconv.Atoi(s); err == nil {
			r.Budget = time.Duration(n) * time.Second
		}
	}
	r.Replay = os.Getenv("VERIF_REPLAY")
	if r.Replay != "" {
		// A replay runs in the tier its artefact came from: scenario sets differ per tier and a
		// thorough-tier scenario does not exist in a quick run.
		if b, err := os.ReadFile(r.Replay); err == nil {
			var a struct {
				Tier string `json:"tier"`
			}
			if json.Unmarshal(b, &a) == nil && (a.Tier == "quick" || a.Tier == "thorough") {
				r.Tier = a.Tier
			}
		}
	}
	// A check made of several programs: every part but the last writes its results to a part
	// file (same format as a shard) which the last part merges with MergeParts.
	if p := os.Getenv("VERIF_PART_OUT"); p != "" {
		r.shardOut = p
	}
	return r
}

// MergeParts folds in the result files of earlier parts of the same check (VERIF_PARTS,
// colon separated). A missing or unreadable part is a harness error.
func (r *Run) MergeParts() {
	for _, p := range strings.Split(os.Getenv("VERIF_PARTS"), ":") {
		if p == "" {
			continue
		}
		b, err := os.ReadFile(p)
		if err != nil {
			r.HarnessError("part %s produced no result: %v", p, err)
			continue
		}
		var sf shardFile
		if err := json.Unmarshal(b, &sf); err != nil {
			r.HarnessError("part %s: bad result file: %v", p, err)
			continue
		}
		r.mergeShard(&sf)
	}
}

// Quick reports whether this is the quick tier.
func (r *Run) Quick() bool { return r.Tier != "thorough" }

// Deadline is the instant at which explorers should stop (exhaustive:false).
func (r *Run) Deadline() time.Time { return r.Start.Add(r.Budget) }

// Left returns the remaining budget.
func (r *Run) Left() time.Duration { return time.Until(r.Deadline()) }

// Set sets a coverage key.
func (r *Run) Set(k string, v any) {
	r.mu.Lock()
	defer r.mu.Unlock()
	r.cov[k] = v
}

// Add adds n to an integer coverage key.
func (r *Run) Add(k string, n int) {
	r.mu.Lock()
	defer r.mu.Unlock()
	c, _ := r.cov[k].(int)
	r.cov[k] = c + n
}

// Get returns a coverage key.
func (r *Run) Get(k string) any {
	r.mu.Lock()
	defer r.mu.Unlock()
	return r.cov[k]
}

// Sample appends to coverage.samples (capped).
func (r *Run) Sample(v any) {
	r.mu.Lock()
	defer r.mu.Unlock()
	s, _ := r.cov["samples"].([]any)
	if len(s) < 12 {
		r.cov["samples"] = append(s, v)
	}
}

// Assume records an assumption / trusted-base statement.
func (r *Run) Assume(s string) {
	r.mu.Lock()
	defer r.mu.Unlock()
	for _, a := range r.assume {
		if a == s {
			return
		}
	}
	r.assume = append(r.assume, s)
}

// Report records a violation (deduplicated by fingerprint).
func (r *Run) Report(v *Violation) {
	if v == nil {
		return
	}
	r.mu.Lock()
	defer r.mu.Unlock()
	if r.seenFP[v.Fingerprint] {
		return
	}
	r.seenFP[v.Fingerprint] = true
	r.viols = append(r.viols, v)
}

// HarnessError records an error of the machinery itself (exit 2, no VIOLATION line).
func (r *Run) HarnessError(format string, a ...any) {
	r.mu.Lock()
	defer r.mu.Unlock()
	r.harnessE = append(r.harnessE, fmt.Sprintf(format, a...))
}

// Violations returns the number of recorded violations.
func (r *Run) Violations() int {
	r.mu.Lock()
	defer r.mu.Unlock()
	return len(r.viols)
}

type known struct {
	prop, fp, text string
}

func loadKnown(root string) []known {
	b, err := os.ReadFile(filepath.Join(root, "KNOWN_FINDINGS.txt"))
	if err != nil {
		return nil
	}
	var out []known
	for _, l := range strings.Split(string(b), "\n") {
		l = strings.TrimSpace(l)
		if !strings.HasPrefix(l, "finding:") {
			continue
		}
		rest := strings.TrimSpace(strings.TrimPrefix(l, "finding:"))
		// finding: property=<ID> fp=<fingerprint-without-spaces> <text>
		f := strings.Fields(rest)
		k := known{}
		var txt []string
		for _, w := range f {
			switch {
			case strings.HasPrefix(w, "property=") && k.prop == "":
				k.prop = strings.TrimPrefix(w, "property=")
			case strings.HasPrefix(w, "fp=") && k.fp == "":
				k.fp = strings.TrimPrefix(w, "fp=")
			default:
				txt = append(txt, w)
			}
		}
		k.text = strings.Join(txt, " ")
		out = append(out, k)
	}
	return out
}

// FPKey normalises a fingerprint into the space-free token used in KNOWN_FINDINGS.txt.
func FPKey(fp string) string {
	return strings.Join(strings.Fields(fp), "_")
}

// Finish writes the evidence file, the artefacts, prints the verdict lines and exits.
var replayRan atomic.Bool

// ReplayRan records that a replay found the scenario its artefact names and executed it.
func ReplayRan() { replayRan.Store(true) }

// NoRepro is called when a replayed sequence shows no violation.
func NoRepro() {
	replayRan.Store(true)
	fmt.Println("replay: no violation reproduced")
}

func (r *Run) Finish() {
	code := r.finish()
	markFinished()
	os.Exit(code)
}

func (r *Run) finish() int {
	r.mu.Lock()
	defer r.mu.Unlock()
	if r.shardOut != "" {
		return r.writeShard()
	}
	if r.Replay != "" && !replayRan.Load() && len(r.viols) == 0 && len(r.harnessE) == 0 {
		// a replay that never found what its artefact names must not look like a pass
		r.harnessE = append(r.harnessE, "replay: the scenario or script named by "+r.Replay+" does not exist in this build of the check")
	}
	kn := loadKnown(r.Root)
	unknown := 0
	sort.SliceStable(r.viols, func(i, j int) bool { return len(r.viols[i].Trace) < len(r.viols[j].Trace) })
	var lines []string
	for _, v := range r.viols {
		key := FPKey(v.Fingerprint)
		isKnown := false
		for _, k := range kn {
			if k.prop == r.Prop && k.fp == key {
				isKnown = true
				lines = append(lines, fmt.Sprintf("KNOWN-FINDING: property=%s %s [%s]", r.Prop, k.text, key))
				break
			}
		}
		if isKnown {
			continue
		}
		unknown++
		h := sha1.Sum([]byte(v.Fingerprint))
		p := filepath.Join(r.Root, "replays", r.Prop+"-"+hex.EncodeToString(h[:5])+".json")
		_ = os.MkdirAll(filepath.Dir(p), 0o755)
		art := map[string]any{"property": r.Prop, "tier": r.Tier, "seed": r.Seed, "fingerprint": v.Fingerprint,
			"detail": v.Detail, "trace": v.Trace, "scenario": v.Scenario,
			"replay_cmd": fmt.Sprintf("bin/check %s --replay %s", r.Prop, p)}
		b, _ := json.MarshalIndent(art, "", " ")
		_ = os.WriteFile(p, b, 0o644)
		lines = append(lines, fmt.Sprintf("VIOLATION property=%s replay=%s", r.Prop, p))
		fmt.Fprintf(os.Stderr, "--- %s violation: %s\n    %s\n    trace: %v\n", r.Prop, v.Fingerprint, v.Detail, v.Trace)
	}
	wall := time.Since(r.Start).Seconds()
	if r.Replay == "" {
		assume := r.assume
		if assume == nil {
			assume = []string{}
		}
		ev := map[string]any{
			"property_id": r.Prop, "tier": r.Tier, "seed": r.Seed, "level": r.Level,
			"coverage": r.cov, "assumptions": assume, "wall_s": wall, "violations": unknown,
		}
		if n := len(r.viols) - unknown; n > 0 {
			r.cov["known_findings_reported"] = n
		}
		if len(r.harnessE) > 0 {
			r.cov["harness_errors"] = r.harnessE
		}
		if _, ok := r.cov["samples"]; !ok {
			r.cov["samples"] = []any{}
		}
		b, err := json.MarshalIndent(ev, "", " ")
		if err != nil {
			fmt.Fprintln(os.Stderr, "evidence marshal:", err)
			return 2
		}
		p := filepath.Join(r.Root, "evidence", r.Prop+".json")
		_ = os.MkdirAll(filepath.Dir(p), 0o755)
		if err := os.WriteFile(p, b, 0o644); err != nil {
			fmt.Fprintln(os.Stderr, "evidence write:", err)
			return 2
		}
	}
	for _, l := range lines {
		fmt.Println(l)
	}
	if len(r.harnessE) > 0 {
		for _, e := range r.harnessE {
			fmt.Fprintln(os.Stderr, "HARNESS-ERROR:", e)
		}
		if unknown == 0 {
			return 2
		}
	}
	if unknown > 0 {
		return 1
	}
	fmt.Printf("OK property=%s tier=%s wall=%.1fs %s\n", r.Prop, r.Tier, wall, r.summary())
	return 0
}

func (r *Run) summary() string {
	var ks []string
	for k, v := range r.cov {
		switch v.(type) {
		case int, int64, bool, float64:
			ks = append(ks, fmt.Sprintf("%s=%v", k, v))
		}
	}
	sort.Strings(ks)
	return strings.Join(ks, " ")
}

// LoadReplay reads a violation artefact.
func LoadReplay(path string) (*Violation, error) {
	b, err := os.ReadFile(path)
	if err != nil {
		return nil, err
	}
	var a struct {
		Fingerprint string   `json:"fingerprint"`
		Detail      string   `json:"detail"`
		Trace       []string `json:"trace"`
		Scenario    string   `json:"scenario"`
	}
	if err := json.Unmarshal(b, &a); err != nil {
		return nil, err
	}
	return &Violation{Fingerprint: a.Fingerprint, Detail: a.Detail, Trace: a.Trace, Scenario: a.Scenario}, nil
}
