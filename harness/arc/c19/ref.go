package main

// Reference semantics of Arc scalars, written from arc/docs/spec.md and the reference
// pages under docs/site/src/pages/reference/control/arc/reference (operators, types,
// loops, variables, statements). Nothing here looks at the compiler.

import (
	"fmt"
	"math"
	"strconv"
	"strings"
)

type Ty int

const (
	I8 Ty = iota
	I16
	I32
	I64
	U8
	U16
	U32
	U64
	F32
	F64
)

var allTys = []Ty{I8, I16, I32, I64, U8, U16, U32, U64, F32, F64}
var intTys = []Ty{I8, I16, I32, I64, U8, U16, U32, U64}
var tyNames = []string{"i8", "i16", "i32", "i64", "u8", "u16", "u32", "u64", "f32", "f64"}

func (t Ty) String() string { return tyNames[t] }
func (t Ty) Float() bool    { return t == F32 || t == F64 }
func (t Ty) Signed() bool   { return t <= I64 }
func (t Ty) Unsigned() bool { return t >= U8 && t <= U64 }
func (t Ty) Bits() int {
	switch t {
	case I8, U8:
		return 8
	case I16, U16:
		return 16
	case I32, U32, F32:
		return 32
	}
	return 64
}
func (t Ty) Narrow() bool { return !t.Float() && t.Bits() < 32 }

// Val is a scalar. Integers live in U: signed types sign-extended to 64 bits, unsigned
// zero-extended. Floats live in F (f32 values are exactly representable float32s).
type Val struct {
	T Ty
	U uint64
	F float64
}

func mkInt(t Ty, x uint64) Val {
	switch t {
	case I8:
		return Val{T: t, U: uint64(int64(int8(x)))}
	case I16:
		return Val{T: t, U: uint64(int64(int16(x)))}
	case I32:
		return Val{T: t, U: uint64(int64(int32(x)))}
	case U8:
		return Val{T: t, U: uint64(uint8(x))}
	case U16:
		return Val{T: t, U: uint64(uint16(x))}
	case U32:
		return Val{T: t, U: uint64(uint32(x))}
	}
	return Val{T: t, U: x}
}

func mkFloat(t Ty, f float64) Val {
	if t == F32 {
		return Val{T: t, F: float64(float32(f))}
	}
	return Val{T: t, F: f}
}

func (v Val) S() int64 { return int64(v.U) }

func (v Val) Truthy() bool {
	if v.T.Float() {
		return v.F != 0
	}
	return v.U != 0
}

func (v Val) String() string {
	if v.T.Float() {
		return fmt.Sprintf("%s(%v)", v.T, v.F)
	}
	if v.T.Signed() {
		return fmt.Sprintf("%s(%d)", v.T, v.S())
	}
	return fmt.Sprintf("%s(%d)", v.T, v.U)
}

func (v Val) Same(o Val) bool {
	if v.T != o.T {
		return false
	}
	if v.T.Float() {
		if math.IsNaN(v.F) || math.IsNaN(o.F) {
			return math.IsNaN(v.F) && math.IsNaN(o.F)
		}
		return math.Float64bits(v.F) == math.Float64bits(o.F)
	}
	return v.U == o.U
}

func minOf(t Ty) int64 {
	if t.Unsigned() {
		return 0
	}
	return -(int64(1) << (t.Bits() - 1))
}

// maxOf as uint64 (u64 max does not fit int64).
func maxOf(t Ty) uint64 {
	if t.Unsigned() {
		if t == U64 {
			return math.MaxUint64
		}
		return uint64(1)<<t.Bits() - 1
	}
	return uint64(1)<<(t.Bits()-1) - 1
}

// Res is the outcome the documentation defines for an evaluation.
type Res struct {
	V      Val
	Trap   bool   // documented runtime error (division/modulo by zero)
	Unspec string // the documentation does not define this case; not judged
}

// ectx collects, for one evaluation, the documented-but-unimplemented situations that
// occurred dynamically ("taints"). They are used only to attribute a divergence to a
// finding recorded in KNOWN_FINDINGS.txt; an untainted divergence is a new violation.
type ectx struct {
	taints map[string]bool
	order  []string
	steps  int
}

func (c *ectx) taint(s string) {
	if c.taints == nil {
		c.taints = map[string]bool{}
	}
	if !c.taints[s] {
		c.taints[s] = true
		c.order = append(c.order, s)
	}
}

func okV(v Val) Res { return Res{V: v} }

func fitsNarrow(t Ty, x int64) bool {
	if x < minOf(t) {
		return false
	}
	if x >= 0 && uint64(x) > maxOf(t) {
		return false
	}
	return true
}

// arith implements + - * / % ^ on two operands of the same type.
func arith(c *ectx, op string, a, b Val) Res {
	t := a.T
	if t.Float() {
		x, y := a.F, b.F
		var r float64
		switch op {
		case "+":
			r = x + y
		case "-":
			r = x - y
		case "*":
			r = x * y
		case "/":
			r = x / y
		case "%":
			// The docs list % without restricting it to integers and give no float
			// definition; the conventional truncated remainder is assumed.
			r = math.Mod(x, y)
		case "^":
			r = math.Pow(x, y)
		}
		if t == F32 {
			switch op {
			case "+":
				r = float64(float32(x) + float32(y))
			case "-":
				r = float64(float32(x) - float32(y))
			case "*":
				r = float64(float32(x) * float32(y))
			case "/":
				r = float64(float32(x) / float32(y))
			default:
				r = float64(float32(r))
			}
		}
		return okV(mkFloat(t, r))
	}
	// integers
	if (op == "/" || op == "%") && b.U == 0 {
		return Res{Trap: true}
	}
	var r uint64
	switch op {
	case "+":
		r = a.U + b.U
	case "-":
		r = a.U - b.U
	case "*":
		r = a.U * b.U
	case "/":
		if t.Signed() {
			if a.S() == minOf(t) && b.S() == -1 {
				if t.Narrow() {
					c.taint("narrow-overflow")
					return okV(mkInt(t, uint64(-a.S())))
				}
				return Res{Unspec: "signed minimum divided by -1"}
			}
			r = uint64(a.S() / b.S())
		} else {
			r = a.U / b.U
		}
	case "%":
		if t.Signed() {
			if b.S() == -1 {
				r = 0
			} else {
				r = uint64(a.S() % b.S())
			}
		} else {
			r = a.U % b.U
		}
	case "^":
		if t.Signed() && b.S() < 0 {
			return Res{Unspec: "negative integer exponent"}
		}
		e := b.U
		if e > math.MaxInt64 {
			c.taint("pow-exponent-beyond-int64")
		}
		if e > 256 {
			// huge exponents only matter for bases -1, 0, 1 (otherwise wrapped garbage
			// either way); keep the loop bounded but exact using exponent reduction.
			// base^e mod 2^64: for odd base the multiplicative order divides 2^62.
			if a.U&1 == 0 && a.U != 0 {
				r = 0
				if t.Narrow() {
					c.taint("narrow-overflow")
				}
				return okV(mkInt(t, r))
			}
		}
		r = 1
		base := a.U
		ov := false
		for e > 0 {
			if e&1 == 1 {
				r *= base
				if t.Narrow() && !fitsNarrow(t, int64(r)) {
					ov = true
				}
			}
			e >>= 1
			if e > 0 {
				base *= base
				if t.Narrow() && !fitsNarrow(t, int64(base)) {
					ov = true
				}
			}
		}
		if ov {
			c.taint("narrow-overflow")
		}
		return okV(mkInt(t, r))
	}
	if t.Narrow() {
		// mathematical result for narrow operands fits int64
		var big int64
		switch op {
		case "+":
			big = a.S() + b.S()
		case "-":
			big = a.S() - b.S()
		case "*":
			big = a.S() * b.S()
		default:
			big = int64(r)
		}
		if t.Unsigned() {
			switch op {
			case "+":
				big = int64(a.U + b.U)
			case "-":
				big = int64(a.U) - int64(b.U)
			case "*":
				big = int64(a.U * b.U)
			}
		}
		if !fitsNarrow(t, big) {
			c.taint("narrow-overflow")
		}
	}
	return okV(mkInt(t, r))
}

func boolV(b bool) Val {
	if b {
		return Val{T: U8, U: 1}
	}
	return Val{T: U8, U: 0}
}

func compare(op string, a, b Val) Val {
	var lt, eq bool
	if a.T.Float() {
		lt, eq = a.F < b.F, a.F == b.F
		gt := a.F > b.F
		switch op {
		case "==":
			return boolV(eq)
		case "!=":
			return boolV(!eq)
		case "<":
			return boolV(lt)
		case "<=":
			return boolV(lt || eq)
		case ">":
			return boolV(gt)
		case ">=":
			return boolV(gt || eq)
		}
	}
	if a.T.Signed() {
		lt, eq = a.S() < b.S(), a.S() == b.S()
	} else {
		lt, eq = a.U < b.U, a.U == b.U
	}
	switch op {
	case "==":
		return boolV(eq)
	case "!=":
		return boolV(!eq)
	case "<":
		return boolV(lt)
	case "<=":
		return boolV(lt || eq)
	case ">":
		return boolV(!lt && !eq)
	case ">=":
		return boolV(!lt)
	}
	panic("bad cmp " + op)
}

func negate(c *ectx, a Val) Res {
	if a.T.Float() {
		return okV(mkFloat(a.T, -a.F))
	}
	if a.T.Unsigned() {
		if a.U != 0 && a.T.Narrow() {
			c.taint("narrow-overflow")
		}
	} else if a.T.Narrow() && a.S() == minOf(a.T) {
		c.taint("narrow-overflow")
	}
	return okV(mkInt(a.T, -a.U))
}

// cast implements the documented casting rules:
//
//	widening: sign/zero extend; narrowing: truncates; signed<->unsigned: saturates at
//	bounds; float->int: truncates toward zero, saturates on overflow.
//
// Where two rules apply at once (narrowing and a change of signedness) and they disagree,
// the documentation does not say which wins: unspecified.
func cast(c *ectx, to Ty, a Val) Res {
	from := a.T
	if from == to {
		return okV(a)
	}
	switch {
	case from.Float() && to.Float():
		return okV(mkFloat(to, a.F))
	case !from.Float() && to.Float():
		var f float64
		if to == F32 {
			if from.Signed() {
				f = float64(float32(a.S()))
			} else {
				f = float64(float32(a.U))
			}
		} else {
			if from.Signed() {
				f = float64(a.S())
			} else {
				f = float64(a.U)
			}
		}
		return okV(mkFloat(to, f))
	case from.Float() && !to.Float():
		if math.IsNaN(a.F) {
			return Res{Unspec: "NaN to integer"}
		}
		tr := math.Trunc(a.F)
		lo, hi := float64(minOf(to)), float64(maxOf(to))
		if tr < lo {
			c.taint("float-to-int-overflow")
			return okV(mkInt(to, uint64(minOf(to))))
		}
		if tr > hi || (to == U64 && tr >= 18446744073709551616.0) || (to == I64 && tr >= 9223372036854775808.0) {
			c.taint("float-to-int-overflow")
			return okV(mkInt(to, maxOf(to)))
		}
		if to.Signed() {
			return okV(mkInt(to, uint64(int64(tr))))
		}
		return okV(mkInt(to, uint64(tr)))
	}
	// int -> int
	sameSign := from.Signed() == to.Signed()
	fits := func() bool {
		if from.Signed() {
			if a.S() < 0 {
				return to.Signed() && a.S() >= minOf(to)
			}
			return a.U <= maxOf(to)
		}
		return a.U <= maxOf(to)
	}()
	if sameSign {
		if !fits {
			// narrowing truncates
			if to.Narrow() {
				c.taint("narrowing-cast-truncation")
			}
		}
		return okV(mkInt(to, a.U))
	}
	if fits {
		return okV(mkInt(to, a.U))
	}
	if to.Bits() < from.Bits() {
		// narrowing truncates vs. sign change saturates: results may differ
		trunc := mkInt(to, a.U)
		var sat Val
		if from.Signed() && a.S() < 0 {
			sat = mkInt(to, uint64(minOf(to)))
		} else {
			sat = mkInt(to, maxOf(to))
		}
		if !trunc.Same(sat) {
			return Res{Unspec: "narrowing cast that also changes signedness"}
		}
		c.taint("narrowing-cast-truncation")
		return okV(sat)
	}
	c.taint("sign-cast-saturation")
	if from.Signed() && a.S() < 0 {
		return okV(mkInt(to, uint64(minOf(to)))) // negative to unsigned: 0
	}
	return okV(mkInt(to, maxOf(to))) // large unsigned to signed of the same width: max
}

// ---- literal formatting

func litText(v Val) string {
	if v.T.Float() {
		s := strconv.FormatFloat(v.F, 'f', -1, 64)
		if !strings.Contains(s, ".") {
			s += ".0"
		}
		return s
	}
	if v.T.Signed() {
		return strconv.FormatInt(v.S(), 10)
	}
	return strconv.FormatUint(v.U, 10)
}
