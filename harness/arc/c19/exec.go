package main

import (
	"context"
	"fmt"
	"math"
	"strings"
	"time"

	"github.com/synnaxlabs/arc/compiler"
	stlmath "github.com/synnaxlabs/arc/stl/math"
	"github.com/synnaxlabs/arc/stl/series"
	"github.com/synnaxlabs/arc/stl/stateful"
	stlstrings "github.com/synnaxlabs/arc/stl/strings"
	"github.com/synnaxlabs/arc/symbol/testutil"
	"github.com/synnaxlabs/arc/text"
	"github.com/tetratelabs/wazero"
	"github.com/tetratelabs/wazero/api"
)

// engine is one wazero runtime with the Arc host modules the compiled code imports.
type engine struct {
	rt   wazero.Runtime
	st   *stateful.Host
	nkey int
}

func newEngine(ctx context.Context) (*engine, error) {
	rt := wazero.NewRuntimeWithConfig(ctx, wazero.NewRuntimeConfigInterpreter().WithCloseOnContextDone(true))
	ss := stlstrings.NewProgramState()
	se := series.NewProgramState()
	sh, err := stateful.NewHost(ctx, rt, se, ss)
	if err != nil {
		return nil, err
	}
	if _, err := series.NewHost(ctx, rt, se); err != nil {
		return nil, err
	}
	if _, err := stlstrings.NewHost(ctx, rt, ss, nil); err != nil {
		return nil, err
	}
	if _, err := stlmath.NewHost(ctx, rt); err != nil {
		return nil, err
	}
	return &engine{rt: rt, st: sh}, nil
}

func (e *engine) close(ctx context.Context) { _ = e.rt.Close(ctx) }

type stage int

const (
	stParse stage = iota
	stAnalyze
	stCompile
	stInstantiate
	stOK
)

var stageNames = []string{"parse", "analyze", "compile", "instantiate", "ok"}

type built struct {
	stage stage // first stage that did not succeed (stOK: module is live)
	msg   string
	panik string
	mod   api.Module
}

// build runs the real pipeline: text.Parse -> text.Analyze -> compiler.Compile ->
// wazero Instantiate (which validates the module).
func (e *engine) build(ctx context.Context, source string) (b built) {
	cur := stParse
	defer func() {
		if r := recover(); r != nil {
			b = built{stage: cur, panik: fmt.Sprint(r)}
		}
	}()
	prog, pd := text.Parse(text.Text{Raw: source})
	if pd != nil && !pd.Ok() {
		return built{stage: stParse, msg: pd.String()}
	}
	cur = stAnalyze
	inter, d := text.Analyze(ctx, prog, testutil.NewRoot(nil))
	if d != nil && !d.Ok() {
		return built{stage: stAnalyze, msg: d.String()}
	}
	cur = stCompile
	out, err := compiler.Compile(ctx, inter)
	if err != nil {
		return built{stage: stCompile, msg: err.Error()}
	}
	cur = stInstantiate
	e.nkey++
	mod, err := e.rt.InstantiateWithConfig(ctx, out.WASM, wazero.NewModuleConfig().WithName(fmt.Sprintf("m%d", e.nkey)))
	if err != nil {
		return built{stage: stInstantiate, msg: err.Error()}
	}
	return built{stage: stOK, mod: mod}
}

func encodeArg(v Val) uint64 {
	switch v.T {
	case F32:
		return api.EncodeF32(float32(v.F))
	case F64:
		return api.EncodeF64(v.F)
	case I8, I16, I32:
		return uint64(uint32(int32(v.S())))
	case U8, U16, U32:
		return uint64(uint32(v.U))
	}
	return v.U
}

// decodeRet reads a result the way every host of the compiled code does: at the width of
// the declared type.
func decodeRet(t Ty, raw uint64) Val {
	switch t {
	case F32:
		return mkFloat(F32, float64(api.DecodeF32(raw)))
	case F64:
		return mkFloat(F64, api.DecodeF64(raw))
	}
	return mkInt(t, raw)
}

type callOut struct {
	V   Val
	Err string
}

const callDeadline = 30 * time.Second

func (e *engine) call(ctx context.Context, b built, f Func, args []Val) (out callOut) {
	defer func() {
		if r := recover(); r != nil {
			out = callOut{Err: "PANIC: " + fmt.Sprint(r)}
		}
	}()
	fn := b.mod.ExportedFunction(f.Name)
	if fn == nil {
		return callOut{Err: "function not exported"}
	}
	raw := make([]uint64, len(args))
	for i, a := range args {
		raw[i] = encodeArg(a)
	}
	cctx, cancel := context.WithTimeout(ctx, callDeadline)
	defer cancel()
	res, err := fn.Call(cctx, raw...)
	if err != nil {
		s := err.Error()
		if i := strings.Index(s, "\n"); i >= 0 {
			s = s[:i]
		}
		return callOut{Err: s}
	}
	if len(res) != 1 {
		return callOut{Err: fmt.Sprintf("%d results", len(res))}
	}
	return callOut{V: decodeRet(f.Ret, res[0])}
}

var _ = math.Pi
