package main

import (
	"fmt"
	"math"
)

// ---- argument alphabets

func boundary(t Ty, thorough bool) []Val {
	if t.Float() {
		fs := []float64{0, 1, -1, 0.5, -2.5, 3, 7.75, 100, -128.5, 255.9, 300, 40000.25, -40000.25, 3e9, -3e9, 1e19, -1e19}
		if thorough {
			fs = append(fs, math.Copysign(0, -1), 2, 65535.5, -32769, 2147483648, 4294967296, 9.3e18, 1e30, math.Inf(1), math.Inf(-1), math.NaN())
		} else {
			fs = append(fs, math.Inf(1), math.NaN())
		}
		if t == F64 {
			fs = append(fs, 1e300, 0.1)
		}
		var out []Val
		for _, f := range fs {
			out = append(out, mkFloat(t, f))
		}
		return out
	}
	mx, mn := maxOf(t), uint64(minOf(t))
	xs := []uint64{0, 1, 2, 3, 7, 10, mx, mx - 1, mx / 2, mx/2 + 1}
	if t.Signed() {
		xs = append(xs, ^uint64(0), ^uint64(1), mn, mn+1, ^uint64(9))
	}
	if thorough {
		xs = append(xs, 5, 16, 100, mx/3, mx-7)
		if t.Signed() {
			xs = append(xs, ^uint64(2), ^uint64(99), mn/2)
		}
	}
	seen := map[uint64]bool{}
	var out []Val
	for _, x := range xs {
		v := mkInt(t, x)
		if !seen[v.U] {
			seen[v.U] = true
			out = append(out, v)
		}
	}
	return out
}

// small arguments for loop bounds
func small(t Ty) []Val {
	xs := []int64{0, 1, 2, 3, 5}
	if t.Signed() {
		xs = append(xs, -1, -3)
	}
	var out []Val
	for _, x := range xs {
		out = append(out, mkInt(t, uint64(x)))
	}
	return out
}

// literal values used inside programs for type t
func lits(t Ty) []Val {
	if t.Float() {
		return []Val{mkFloat(t, 2), mkFloat(t, 0.5), mkFloat(t, 3)}
	}
	return []Val{mkInt(t, 2), mkInt(t, 3), mkInt(t, 0)}
}

var (
	arithOps = []string{"+", "-", "*", "/", "%", "^"}
	cmpOps   = []string{"==", "!=", "<", "<=", ">", ">="}
)

type gen struct {
	n        int
	thorough bool
	emit     func(Func)
}

func (g *gen) fn(family string, params []Param, ret Ty, body ...Stmt) {
	g.n++
	g.emit(Func{Name: fmt.Sprintf("f%d", g.n), Params: params, Ret: ret, Body: body, Family: family})
}

func ab(t Ty) []Param { return []Param{{"a", t}, {"b", t}} }

func atoms(t Ty, withLits bool) []Expr {
	out := []Expr{Ref{"a", t}, Ref{"b", t}}
	if withLits {
		for _, l := range lits(t)[:2] {
			out = append(out, Lit{V: l})
		}
	}
	return out
}

func (g *gen) all() {
	g.exprDepth1()
	g.casts()
	g.flat()
	g.logic()
	g.trees()
	g.statements()
	g.stateful()
	g.loops()
}

// depth-1: every operator on every type, operands params / typed literals / bare literals
func (g *gen) exprDepth1() {
	for _, t := range allTys {
		for _, op := range arithOps {
			for _, l := range atoms(t, true) {
				for _, r := range atoms(t, true) {
					g.fn("arith1", ab(t), t, Return{Bin{op, l, r}})
				}
			}
			// bare literal operands: type comes from the sibling
			bl := Lit{V: lits(t)[0], Bare: true}
			g.fn("arith1-bare", ab(t), t, Return{Bin{op, Ref{"a", t}, bl}})
			g.fn("arith1-bare", ab(t), t, Return{Bin{op, bl, Ref{"a", t}}})
		}
		for _, op := range cmpOps {
			g.fn("cmp1", ab(t), U8, Return{Bin{op, Ref{"a", t}, Ref{"b", t}}})
			g.fn("cmp1", ab(t), U8, Return{Bin{op, Ref{"a", t}, Lit{V: lits(t)[0]}}})
			g.fn("cmp1-bare", ab(t), U8, Return{Bin{op, Ref{"a", t}, Lit{V: lits(t)[0], Bare: true}}})
		}
		g.fn("neg1", ab(t), t, Return{Un{"-", Ref{"a", t}}})
		g.fn("neg1", ab(t), t, Return{Un{"-", Un{"-", Ref{"a", t}}}})
		g.fn("neg1", ab(t), t, Return{Bin{"-", Ref{"b", t}, Un{"-", Ref{"a", t}}}})
		g.fn("not1", ab(t), U8, Return{Un{"not", Paren{Bin{"<", Ref{"a", t}, Ref{"b", t}}}}})
		g.fn("ident", ab(t), t, Return{Ref{"b", t}})
		g.fn("lit", ab(t), t, Return{Lit{V: lits(t)[1]}})
		if !t.Float() {
			g.fn("lit", ab(t), t, Return{Lit{V: mkInt(t, maxOf(t))}})
			if t.Signed() {
				g.fn("lit", ab(t), t, Return{Lit{V: mkInt(t, uint64(minOf(t)+1))}})
			}
		}
	}
}

func (g *gen) casts() {
	for _, from := range allTys {
		for _, to := range allTys {
			a := Ref{"a", from}
			g.fn("cast1", ab(from), to, Return{Cast{to, a}})
			if g.thorough || from.Bits() <= 16 || to.Bits() <= 16 || from.Float() != to.Float() {
				// cast of a compound, compound of casts, compare after cast, round trip
				g.fn("cast-of-sum", ab(from), to, Return{Cast{to, Bin{"+", a, Ref{"b", from}}}})
				g.fn("cast-of-prod", ab(from), to, Return{Cast{to, Bin{"*", a, Ref{"b", from}}}})
				g.fn("sum-of-casts", ab(from), to, Return{Bin{"+", Cast{to, a}, Cast{to, Ref{"b", from}}}})
				g.fn("cmp-of-casts", ab(from), U8, Return{Bin{"<", Cast{to, a}, Cast{to, Ref{"b", from}}}})
				g.fn("cast-roundtrip", ab(from), from, Return{Cast{from, Cast{to, a}}})
				g.fn("div-of-cast", ab(from), to, Return{Bin{"/", Cast{to, a}, Lit{V: lits(to)[0]}}})
			}
		}
	}
	if g.thorough {
		for _, t1 := range allTys {
			for _, t2 := range allTys {
				for _, t3 := range allTys {
					if t1 == t2 || t2 == t3 {
						continue
					}
					g.fn("cast-chain", ab(t1), t3, Return{Cast{t3, Cast{t2, Ref{"a", t1}}}})
				}
			}
		}
	}
}

// flat operator sequences x op1 y op2 z printed WITHOUT parentheses: the tree is the one
// the documented precedence/associativity gives.
func (g *gen) flat() {
	type opi struct {
		op string
		lv int
	}
	ops := []opi{{"^", 6}, {"*", 4}, {"/", 4}, {"%", 4}, {"+", 3}, {"-", 3}, {"<", 2}, {"==", 2}, {">=", 2}}
	tys := allTys
	for _, t := range tys {
		x, y, z := Expr(Ref{"a", t}), Expr(Ref{"b", t}), Expr(Lit{V: lits(t)[1]})
		for _, o1 := range ops {
			for _, o2 := range ops {
				if o1.lv == 2 && o2.lv == 2 {
					continue // chained comparisons: see logic()
				}
				var e Expr
				if o2.lv > o1.lv || (o1.lv == 6 && o2.lv == 6) {
					e = Bin{o1.op, x, Bin{o2.op, y, z}}
				} else {
					e = Bin{o2.op, Bin{o1.op, x, y}, z}
				}
				g.fn("flat2", ab(t), e.ty(), Return{e})
				// other operand orders
				if g.thorough {
					var e2 Expr
					if o2.lv > o1.lv || (o1.lv == 6 && o2.lv == 6) {
						e2 = Bin{o1.op, z, Bin{o2.op, x, y}}
					} else {
						e2 = Bin{o2.op, Bin{o1.op, z, x}, y}
					}
					g.fn("flat2", ab(t), e2.ty(), Return{e2})
				}
			}
		}
		// unary minus against binary operators: -a ^ b = -(a ^ b); -a * b = (-a) * b
		g.fn("flat-unary", ab(t), t, Return{Un{"-", Bin{"^", Ref{"a", t}, Lit{V: lits(t)[0]}}}})
		g.fn("flat-unary", ab(t), t, Return{Bin{"*", Un{"-", Ref{"a", t}}, Ref{"b", t}}})
		g.fn("flat-unary", ab(t), t, Return{Bin{"-", Un{"-", Ref{"a", t}}, Ref{"b", t}}})
		g.fn("flat-unary", ab(t), t, Return{Bin{"^", Ref{"a", t}, Paren{Un{"-", Ref{"b", t}}}}})
		g.fn("flat-unary", ab(t), U8, Return{Bin{"<", Un{"-", Ref{"a", t}}, Ref{"b", t}}})
		// three operators
		if g.thorough || t == I8 || t == U8 || t == I32 || t == U64 || t == F32 {
			three := [][3]string{{"+", "*", "-"}, {"-", "-", "-"}, {"/", "/", "*"}, {"-", "+", "%"}, {"^", "^", "*"}, {"*", "^", "^"}, {"+", "<", "*"}, {"-", "/", "+"}, {"%", "*", "/"}}
			w := Expr(Lit{V: lits(t)[0]})
			for _, q := range three {
				e := parseFlat([]Expr{x, y, z, w}, q[:])
				g.fn("flat3", ab(t), e.ty(), Return{e})
			}
		}
	}
}

// parseFlat builds the tree the documented precedence gives for o[0] op[0] o[1] op[1] ...
func parseFlat(o []Expr, ops []string) Expr {
	p := 0
	return parseFrom(o, ops, &p, 0, func(op string) int { return level(Bin{Op: op}) })
}

func parseFrom(o []Expr, ops []string, pos *int, min int, lv func(string) int) Expr {
	lhs := o[*pos]
	for *pos < len(ops) && lv(ops[*pos]) >= min {
		op := ops[*pos]
		l := lv(op)
		*pos++
		next := l + 1
		if op == "^" {
			next = l
		}
		rhs := parseFrom(o, ops, pos, next, lv)
		lhs = Bin{op, lhs, rhs}
	}
	return lhs
}

// logical operators, short circuit, truthiness, mixed chains
func (g *gen) logic() {
	a, b := Expr(Ref{"a", U8}), Expr(Ref{"b", U8})
	p := ab(U8)
	for _, op := range []string{"and", "or"} {
		g.fn("logic1", p, U8, Return{Bin{op, a, b}})
		g.fn("logic1", p, U8, Return{Bin{op, Un{"not", a}, b}})
		g.fn("logic1", p, U8, Return{Un{"not", Paren{Bin{op, a, b}}}})
		g.fn("logic1", p, U8, Return{Bin{op, Bin{op, a, b}, Lit{V: mkInt(U8, 2)}}})
		g.fn("logic1", p, U8, Return{Bin{op, Lit{V: mkInt(U8, 5), Bare: true}, Lit{V: mkInt(U8, 3), Bare: true}}})
		g.fn("logic1", p, U8, Return{Bin{op, Lit{V: mkInt(U8, 0), Bare: true}, Lit{V: mkInt(U8, 7), Bare: true}}})
	}
	g.fn("logic1", p, U8, Return{Un{"not", a}})
	g.fn("logic1", p, U8, Return{Un{"not", Un{"not", a}}})
	g.fn("logic1", p, U8, Return{Un{"not", Lit{V: mkInt(U8, 42), Bare: true}}})
	g.fn("logic1", p, U8, Return{Bin{"==", Un{"not", a}, b}})
	// mixed and/or: same documented level, left-associative
	g.fn("logic-mixed", p, U8, Return{Bin{"and", Bin{"or", a, b}, Lit{V: mkInt(U8, 0)}}})
	g.fn("logic-mixed", p, U8, Return{Bin{"or", Bin{"and", a, b}, Lit{V: mkInt(U8, 1)}}})
	g.fn("logic-mixed", p, U8, Return{Bin{"or", a, Paren{Bin{"and", b, Lit{V: mkInt(U8, 0)}}}}})
	// chained comparisons on u8: same documented level, left-associative
	g.fn("cmp-chain", p, U8, Return{Bin{"==", Bin{"<", a, b}, Lit{V: mkInt(U8, 1)}}})
	g.fn("cmp-chain", p, U8, Return{Bin{"<", Bin{"==", a, b}, Lit{V: mkInt(U8, 1)}}})
	// comparisons under logic, every type
	for _, t := range allTys {
		x, y := Expr(Ref{"a", t}), Expr(Ref{"b", t})
		k := Expr(Lit{V: lits(t)[0]})
		pp := ab(t)
		g.fn("logic-cmp", pp, U8, Return{Bin{"and", Bin{">=", x, k}, Bin{"<=", x, y}}})
		g.fn("logic-cmp", pp, U8, Return{Bin{"or", Bin{"<", x, k}, Bin{">", x, y}}})
		g.fn("logic-cmp", pp, U8, Return{Un{"not", Paren{Bin{"and", Bin{"==", x, y}, Bin{"!=", x, k}}}}})
		if !t.Float() {
			// short circuit guards a division by zero
			z := Expr(Lit{V: mkInt(t, 0)})
			g.fn("short-circuit", pp, U8, Return{Bin{"and", Bin{"!=", y, z}, Bin{">", Bin{"/", x, y}, k}}})
			g.fn("short-circuit", pp, U8, Return{Bin{"or", Bin{"==", y, z}, Bin{">", Bin{"%", x, y}, k}}})
			g.fn("short-circuit", pp, U8, Return{Bin{"or", Bin{"and", Bin{"!=", y, z}, Bin{"==", Bin{"/", x, y}, k}}, Bin{"==", x, k}}})
		}
	}
}

// all expression trees of depth 2 (thorough: over more atoms) for representative types
func (g *gen) trees() {
	tys := []Ty{I8, U8, I16, U16, I32, U32, I64, U64, F32, F64}
	ops := []string{"+", "-", "*", "/", "%"}
	if g.thorough {
		ops = append(ops, "^")
	}
	for _, t := range tys {
		at := []Expr{Ref{"a", t}, Ref{"b", t}, Lit{V: lits(t)[1]}}
		var d1 []Expr
		for _, op := range ops {
			for _, l := range at {
				for _, r := range at {
					d1 = append(d1, Bin{op, l, r})
				}
			}
		}
		d1 = append(d1, Un{"-", Ref{"a", t}})
		for i, l := range d1 {
			for _, op := range ops {
				for j, r := range at {
					if !g.thorough && (i+j)%3 != 0 {
						continue
					}
					g.fn("tree2", ab(t), t, Return{Bin{op, Paren{l}, r}})
					g.fn("tree2", ab(t), t, Return{Bin{op, r, Paren{l}}})
				}
			}
			if g.thorough {
				for k, r := range d1 {
					if (i+k)%7 != 0 {
						continue
					}
					for _, op := range ops {
						g.fn("tree2x2", ab(t), t, Return{Bin{op, Paren{l}, Paren{r}}})
					}
					g.fn("tree2x2-cmp", ab(t), U8, Return{Bin{"<", Paren{l}, Paren{r}}})
				}
			}
			g.fn("tree2-cmp", ab(t), U8, Return{Bin{"<=", Paren{l}, Ref{"b", t}}})
		}
	}
}

func (g *gen) statements() {
	for _, t := range allTys {
		a, b := Expr(Ref{"a", t}), Expr(Ref{"b", t})
		x := Expr(Ref{"x", t})
		k := Expr(Lit{V: lits(t)[0]})
		p := ab(t)
		// locals: typed, inferred, reassigned
		g.fn("local", p, t, Decl{Name: "x", T: t, Typed: true, Init: Bin{"+", a, b}}, Return{Bin{"*", x, k}})
		g.fn("local", p, t, Decl{Name: "x", T: t, Init: Bin{"-", a, b}}, Return{Bin{"-", x, a}})
		g.fn("local", p, t, Decl{Name: "x", T: t, Typed: true, Init: Lit{V: lits(t)[1], Bare: true}}, Assign{"x", "", Bin{"+", x, a}}, Assign{"x", "", Bin{"*", x, b}}, Return{x})
		g.fn("local", p, t, Decl{Name: "x", T: t, Init: a}, Decl{Name: "y", T: t, Init: b}, Assign{"x", "", Ref{"y", t}}, Assign{"y", "", a}, Return{Bin{"-", x, Ref{"y", t}}})
		g.fn("local-cmp", p, U8, Decl{Name: "c", T: U8, Init: Bin{"<", a, b}}, Return{Un{"not", Ref{"c", U8}}})
		g.fn("param-assign", p, t, Assign{"a", "", Bin{"+", a, k}}, Return{Bin{"-", a, b}})
		for _, op := range []string{"+", "-", "*", "/", "%"} {
			g.fn("compound", p, t, Decl{Name: "x", T: t, Typed: true, Init: a}, Assign{"x", op, b}, Return{x})
			g.fn("compound", p, t, Decl{Name: "x", T: t, Init: a}, Assign{"x", op, Lit{V: lits(t)[0], Bare: true}}, Assign{"x", op, k}, Return{x})
		}
		// conditionals with early return
		g.fn("if-return", p, t, If{C: Bin{"<", a, b}, Then: []Stmt{Return{a}}}, Return{b})
		g.fn("if-return", p, t, If{C: Bin{"<", a, b}, Then: []Stmt{Return{a}}, HasEl: true, Else: []Stmt{Return{b}}})
		g.fn("if-return", p, t,
			If{C: Bin{"==", a, b}, Then: []Stmt{Return{k}},
				Elifs: []Elif{{Bin{">", a, b}, []Stmt{Return{Bin{"-", a, b}}}}, {Bin{"<", a, k}, []Stmt{Return{a}}}}},
			Return{b})
		g.fn("if-return", p, t,
			If{C: Bin{"==", a, b}, Then: []Stmt{Return{k}},
				Elifs: []Elif{{Bin{">", a, b}, []Stmt{Return{Bin{"-", a, b}}}}},
				HasEl: true, Else: []Stmt{Return{Bin{"-", b, a}}}})
		// assignments in branches, nested ifs, fallthrough
		g.fn("if-assign", p, t,
			Decl{Name: "x", T: t, Typed: true, Init: k},
			If{C: Bin{">", a, b}, Then: []Stmt{Assign{"x", "", a}},
				Elifs: []Elif{{Bin{"==", a, b}, []Stmt{Assign{"x", "+", a}}}, {Bin{"<", b, k}, []Stmt{Assign{"x", "", b}}}},
				HasEl: true, Else: []Stmt{Assign{"x", "-", b}}},
			Return{x})
		g.fn("if-nested", p, t,
			Decl{Name: "x", T: t, Typed: true, Init: a},
			If{C: Bin{">=", a, b}, Then: []Stmt{
				If{C: Bin{"==", a, b}, Then: []Stmt{Return{k}}, HasEl: true, Else: []Stmt{Assign{"x", "", Bin{"-", a, b}}}},
			}, HasEl: true, Else: []Stmt{
				If{C: Bin{"<", a, k}, Then: []Stmt{Assign{"x", "", b}}},
			}},
			Return{x})
		g.fn("if-truthy", p, t, If{C: Cast{U8, Bin{"!=", a, b}}, Then: []Stmt{Return{a}}}, Return{b})
	}
	// u8 condition truthiness: any non-zero value
	g.fn("if-truthy", ab(U8), U8, If{C: Ref{"a", U8}, Then: []Stmt{Return{Lit{V: mkInt(U8, 1)}}}}, Return{Lit{V: mkInt(U8, 0)}})
	g.fn("if-truthy", ab(U8), U8, If{C: Bin{"+", Ref{"a", U8}, Ref{"b", U8}}, Then: []Stmt{Return{Lit{V: mkInt(U8, 1)}}}}, Return{Lit{V: mkInt(U8, 0)}})
}

// stateful variables: each function is called several times on the same instance
func (g *gen) stateful() {
	for _, t := range allTys {
		a, b := Expr(Ref{"a", t}), Expr(Ref{"b", t})
		s := Expr(Ref{"s", t})
		p := ab(t)
		zero := Expr(Lit{V: mkZero(t), Bare: true})
		g.fn("stateful", p, t, Decl{Name: "s", T: t, Typed: true, Stateful: true, Init: zero}, Assign{"s", "", Bin{"+", s, a}}, Return{s})
		g.fn("stateful", p, t, Decl{Name: "s", T: t, Typed: true, Stateful: true, Init: Lit{V: lits(t)[1]}}, Assign{"s", "*", a}, Return{Bin{"-", s, b}})
		g.fn("stateful", p, t, Decl{Name: "s", T: t, Stateful: true, Init: a}, Decl{Name: "old", T: t, Init: s}, Assign{"s", "", b}, Return{Ref{"old", t}})
		g.fn("stateful", p, t,
			Decl{Name: "s", T: t, Typed: true, Stateful: true, Init: zero},
			Decl{Name: "n", T: t, Typed: true, Stateful: true, Init: Lit{V: lits(t)[0]}},
			If{C: Bin{">", a, b}, Then: []Stmt{Assign{"s", "+", a}}, HasEl: true, Else: []Stmt{Assign{"n", "+", b}, Return{Ref{"n", t}}}},
			Return{Bin{"-", s, Ref{"n", t}}})
		g.fn("stateful-count", p, I64,
			Decl{Name: "count", T: I64, Stateful: true, Init: Lit{V: mkInt(I64, 0), Bare: true}},
			Assign{"count", "", Bin{"+", Ref{"count", I64}, Lit{V: mkInt(I64, 1), Bare: true}}},
			Return{Ref{"count", I64}})
	}
}

func mkZero(t Ty) Val {
	if t.Float() {
		return mkFloat(t, 0)
	}
	return mkInt(t, 0)
}

// bounded loops; arguments come from small(t)
func (g *gen) loops() {
	for _, t := range intTys {
		a, b := Expr(Ref{"a", t}), Expr(Ref{"b", t})
		i := Expr(Ref{"i", t})
		tot := Expr(Ref{"t", t})
		one := Expr(Lit{V: mkInt(t, 1)})
		two := Expr(Lit{V: mkInt(t, 2)})
		p := ab(t)
		decl := Decl{Name: "t", T: t, Typed: true, Init: Lit{V: mkInt(t, 0), Bare: true}}
		add := func(e Expr) Stmt { return Assign{"t", "", Bin{"+", tot, e}} }
		ret := Return{tot}
		// range with 1, 2, 3 arguments
		g.fn("loop-range1", p, t, decl, ForRange{"i", t, []Expr{a}, []Stmt{add(Bin{"+", i, one})}}, ret)
		g.fn("loop-range2", p, t, decl, ForRange{"i", t, []Expr{a, b}, []Stmt{add(Bin{"+", i, one})}}, ret)
		g.fn("loop-range3", p, t, decl, ForRange{"i", t, []Expr{a, b, two}, []Stmt{add(Bin{"+", i, one})}}, ret)
		g.fn("loop-range3", p, t, decl, ForRange{"i", t, []Expr{Lit{V: mkInt(t, 0)}, Lit{V: mkInt(t, 10)}, Bin{"+", a, one}}, []Stmt{add(one)}}, ret)
		if t.Signed() {
			g.fn("loop-range3-neg", p, t, decl, ForRange{"i", t, []Expr{a, b, Lit{V: mkInt(t, ^uint64(0))}}, []Stmt{add(Bin{"+", i, two})}}, ret)
			g.fn("loop-range3-neg", p, t, decl, ForRange{"i", t, []Expr{Lit{V: mkInt(t, 5)}, Lit{V: mkInt(t, ^uint64(4))}, Lit{V: mkInt(t, ^uint64(1))}}, []Stmt{add(one)}}, ret)
		}
		g.fn("loop-range-lit", p, t, decl, ForRange{"i", t, []Expr{Lit{V: mkInt(t, 5)}}, []Stmt{add(a)}}, ret)
		// break / continue in each position of an if / else-if / else chain
		for _, ctl := range []Stmt{Break{}, Continue{}} {
			nm := "loop-break"
			if _, ok := ctl.(Continue); ok {
				nm = "loop-continue"
			}
			other := add(Lit{V: mkInt(t, 10)})
			for pos := 0; pos < 4; pos++ {
				bodies := [][]Stmt{{other}, {add(Lit{V: mkInt(t, 20)})}, {add(Lit{V: mkInt(t, 30)})}, {add(Lit{V: mkInt(t, 40)})}}
				bodies[pos] = []Stmt{ctl}
				chain := If{C: Bin{"==", i, Lit{V: mkInt(t, 0)}}, Then: bodies[0],
					Elifs: []Elif{{Bin{"==", i, one}, bodies[1]}, {Bin{"==", i, two}, bodies[2]}},
					HasEl: true, Else: bodies[3]}
				g.fn(nm, p, t, decl, ForRange{"i", t, []Expr{a}, []Stmt{chain, add(one)}}, ret)
				// same in a conditional loop with a manual counter
				cnt := Expr(Ref{"n", t})
				chain2 := If{C: Bin{"==", cnt, one}, Then: bodies[0],
					Elifs: []Elif{{Bin{"==", cnt, two}, bodies[1]}, {Bin{"==", cnt, Lit{V: mkInt(t, 3)}}, bodies[2]}},
					HasEl: true, Else: bodies[3]}
				g.fn(nm+"-cond", p, t, decl,
					Decl{Name: "n", T: t, Typed: true, Init: Lit{V: mkInt(t, 0), Bare: true}},
					ForCond{Bin{"<", cnt, a}, []Stmt{Assign{"n", "", Bin{"+", cnt, one}}, chain2, add(one)}}, ret)
			}
			// without else, nested if
			g.fn(nm, p, t, decl, ForRange{"i", t, []Expr{a}, []Stmt{
				If{C: Bin{">", i, one}, Then: []Stmt{If{C: Bin{"==", i, b}, Then: []Stmt{ctl}}, add(two)}},
				add(one)}}, ret)
		}
		// conditional and infinite loops
		g.fn("loop-cond", p, t, decl, ForCond{Bin{">", a, Lit{V: mkInt(t, 0)}}, []Stmt{add(a), Assign{"a", "", Bin{"-", a, one}}}}, ret)
		g.fn("loop-inf", p, t, Decl{Name: "v", T: t, Typed: true, Init: one},
			ForInf{[]Stmt{If{C: Bin{">=", Ref{"v", t}, a}, Then: []Stmt{Break{}}}, Assign{"v", "", Bin{"*", Ref{"v", t}, two}}}},
			Return{Ref{"v", t}})
		// nested loops: break/continue bind to the innermost loop
		j := Expr(Ref{"j", t})
		g.fn("loop-nested", p, t, decl, ForRange{"i", t, []Expr{a}, []Stmt{
			ForRange{"j", t, []Expr{Lit{V: mkInt(t, 4)}}, []Stmt{If{C: Bin{">=", j, b}, Then: []Stmt{Break{}}}, add(one)}},
			add(Lit{V: mkInt(t, 10)})}}, ret)
		g.fn("loop-nested", p, t, decl, ForRange{"i", t, []Expr{a}, []Stmt{
			ForRange{"j", t, []Expr{Lit{V: mkInt(t, 4)}}, []Stmt{If{C: Bin{"==", j, b}, Then: []Stmt{Continue{}}}, add(one)}},
			If{C: Bin{"==", i, one}, Then: []Stmt{Continue{}}},
			add(Lit{V: mkInt(t, 10)})}}, ret)
		g.fn("loop-nested", p, t, decl, ForRange{"i", t, []Expr{a}, []Stmt{
			If{C: Bin{"==", i, two}, Then: []Stmt{Break{}}},
			ForCond{Bin{"<", tot, Lit{V: mkInt(t, 100)}}, []Stmt{add(Lit{V: mkInt(t, 7)}), If{C: Bin{">", tot, Bin{"*", b, Lit{V: mkInt(t, 9)}}}, Then: []Stmt{Break{}}}}},
		}}, ret)
		// early return from inside a loop
		g.fn("loop-return", p, t, decl, ForRange{"i", t, []Expr{a}, []Stmt{If{C: Bin{"==", i, b}, Then: []Stmt{Return{Bin{"+", tot, Lit{V: mkInt(t, 100)}}}}}, add(one)}}, ret)
		// loop variable of one type, accumulator of another
		if t != I64 {
			g.fn("loop-cast", p, I64, Decl{Name: "t", T: I64, Typed: true, Init: Lit{V: mkInt(I64, 0), Bare: true}},
				ForRange{"i", t, []Expr{a, b}, []Stmt{Assign{"t", "", Bin{"+", Ref{"t", I64}, Cast{I64, i}}}}}, Return{Ref{"t", I64}})
		}
		// stateful accumulation inside a loop
		g.fn("loop-stateful", p, t, Decl{Name: "s", T: t, Typed: true, Stateful: true, Init: Lit{V: mkInt(t, 0), Bare: true}},
			ForRange{"i", t, []Expr{a}, []Stmt{Assign{"s", "+", one}}}, Return{Ref{"s", t}})
	}
}
