package main

import (
	"fmt"
	"runtime"
	"strings"
	"sync"
	"sync/atomic"
	"time"

	"verifkit/vk"
)

// tokenise on whitespace, punctuation as separate tokens
func tokens(s string) []string {
	var out []string
	cur := ""
	flush := func() {
		if cur != "" {
			out = append(out, cur)
			cur = ""
		}
	}
	for _, r := range s {
		switch {
		case r == ' ' || r == '\n' || r == '\t':
			flush()
		case strings.ContainsRune("(){},", r):
			flush()
			out = append(out, string(r))
		default:
			cur += string(r)
		}
	}
	flush()
	return out
}

var ncAlphabet = []string{"func", "f", "a", "x", "i64", "u8", "f32", "(", ")", "{", "}", ",", ":=", "$=", "=", "+=", "+", "-", "^", "%", "<", "==",
	"and", "not", "if", "else", "for", "range", "break", "continue", "return", "1", "2.5", "0", "\"s\"", "[", "]", "->", "\n"}

var ncBodyAlphabet = []string{"a", "b", "x", "1", "2.5", "i64", "u8", "(", ")", "{", "}", ":=", "$=", "=", "+", "-", "^", "/", "<", "and", "not",
	"if", "else", "for", "range", "break", "continue", "return", ",", "\n"}

func nocrashOne(r *vk.Run, eng *engine, source, origin string) (accepted bool) {
	b := eng.build(ctx, source)
	switch {
	case b.panik != "":
		v := vk.Violationf("source-crashes-pipeline:"+stageNames[b.stage]+":"+msgClass(b.panik),
			"the %s stage panicked on source text instead of reporting diagnostics: %s\nsource (%s):\n%s", stageNames[b.stage], b.panik, origin, source)
		v.Scenario, v.Trace = "nocrash", []string{source}
		r.Report(v)
	case b.stage == stCompile:
		v := vk.Violationf("accepted-but-does-not-compile:"+compileClass(b.msg),
			"the analyzer accepted the source but compilation failed: %s\nsource (%s):\n%s", b.msg, origin, source)
		v.Scenario, v.Trace = "nocrash", []string{source}
		r.Report(v)
	case b.stage == stInstantiate:
		v := vk.Violationf("accepted-but-invalid-module:"+moduleClass(b.msg),
			"the compiled module does not validate/instantiate: %s\nsource (%s):\n%s", b.msg, origin, source)
		v.Scenario, v.Trace = "nocrash", []string{source}
		r.Report(v)
	case b.stage == stOK:
		_ = b.mod.Close(ctx)
		return true
	}
	return false
}

// nocrash enumerates (a) every single-token mutation (delete, duplicate, swap with the
// next, replace by each alphabet token) of one seed program per family, and (b) every
// token string up to length L placed in a function body.
func nocrash(r *vk.Run, all []Func, thorough bool) (built, accepted int64, complete bool) {
	seen := map[string]bool{}
	var seeds []string
	for _, f := range all {
		k := f.Family
		if !seen[k] && (f.Params[0].T == I32 || f.Params[0].T == U8 || f.Params[0].T == F64) {
			seen[k] = true
			seeds = append(seeds, f.Src())
		}
	}
	seeds = append(seeds,
		"func g(x f64) f64 {\n    return x * 2.0\n}\nfunc f(a f64) f64 {\n    return g(a) + g(1.0)\n}\n",
		"func f(a i64) i64 {\n    data := [1, 2, 3]\n    t i64 := 0\n    for i, x := data {\n        t = t + x\n    }\n    return t + len(data)\n}\n",
		"func f(a str) str {\n    return a + \"x\"\n}\n",
		"LIMIT := 5\nfunc f(a i64) i64 {\n    return a + LIMIT\n}\n",
	)
	src := make(chan [2]string, 256)
	var nb, na, skipped atomic.Int64
	var wg sync.WaitGroup
	nw := runtime.GOMAXPROCS(0)
	if nw > 16 {
		nw = 16
	}
	for i := 0; i < nw; i++ {
		wg.Add(1)
		go func(slot int) {
			defer wg.Done()
			eng, err := newEngine(ctx)
			if err != nil {
				r.HarnessError("engine: %v", err)
				return
			}
			defer eng.close(ctx)
			for s := range src {
				if time.Now().After(r.Deadline()) {
					skipped.Add(1)
					continue
				}
				vk.Inflight(slot, "nocrash", []string{s[0]})
				if nocrashOne(r, eng, s[0], s[1]) {
					na.Add(1)
				}
				nb.Add(1)
				vk.InflightIdle(slot)
			}
		}(i)
	}
	join := func(t []string) string { return strings.Join(t, " ") }
	for si, seed := range seeds {
		t := tokens(seed)
		if !thorough && si%2 == 1 && si < len(seeds)-4 {
			continue
		}
		for i := range t {
			org := fmt.Sprintf("seed %d token %d", si, i)
			del := append(append([]string{}, t[:i]...), t[i+1:]...)
			src <- [2]string{join(del), org + " deleted"}
			dup := append(append(append([]string{}, t[:i+1]...), t[i]), t[i+1:]...)
			src <- [2]string{join(dup), org + " duplicated"}
			if i+1 < len(t) {
				sw := append([]string{}, t...)
				sw[i], sw[i+1] = sw[i+1], sw[i]
				src <- [2]string{join(sw), org + " swapped"}
			}
			for _, a := range ncAlphabet {
				if a == t[i] {
					continue
				}
				rp := append([]string{}, t...)
				rp[i] = a
				src <- [2]string{join(rp), org + " replaced by " + a}
			}
		}
		// every prefix of the seed (truncated input)
		for i := 0; i <= len(seed); i += 3 {
			src <- [2]string{seed[:i], fmt.Sprintf("seed %d truncated at byte %d", si, i)}
		}
	}
	L := 3
	if thorough {
		L = 4
	}
	var rec func(pre []string)
	rec = func(pre []string) {
		if len(pre) > 0 {
			body := join(pre)
			src <- [2]string{"func f(a i64, b u8) i64 {\n" + body + "\nreturn a\n}\n", "body tokens"}
		}
		if len(pre) == L {
			return
		}
		for _, a := range ncBodyAlphabet {
			rec(append(pre, a))
		}
	}
	rec(nil)
	close(src)
	wg.Wait()
	return nb.Load(), na.Load(), skipped.Load() == 0
}
