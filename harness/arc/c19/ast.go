package main

import (
	"fmt"
	"strings"
)

// ---- expressions

type Expr interface{ ty() Ty }

type Lit struct {
	V    Val
	Bare bool // printed without a cast; type comes from the context (defaults i64/f64)
}
type Ref struct {
	Name string
	T    Ty
}
type Un struct {
	Op string // "-" | "not"
	X  Expr
}
type Bin struct {
	Op   string
	L, R Expr
}
type Cast struct {
	To Ty
	X  Expr
}
type Paren struct{ X Expr } // explicit parentheses in the source

func (e Lit) ty() Ty { return e.V.T }
func (e Ref) ty() Ty { return e.T }
func (e Un) ty() Ty {
	if e.Op == "not" {
		return U8
	}
	return e.X.ty()
}
func (e Bin) ty() Ty {
	switch e.Op {
	case "==", "!=", "<", "<=", ">", ">=", "and", "or":
		return U8
	}
	return e.L.ty()
}
func (e Cast) ty() Ty  { return e.To }
func (e Paren) ty() Ty { return e.X.ty() }

// precedence levels of the documentation (higher binds tighter):
//
//	6 ^ (right)   5 unary -, not (right)   4 * / %   3 + -   2 comparisons   1 and, or
func level(e Expr) int {
	switch x := e.(type) {
	case Bin:
		switch x.Op {
		case "^":
			return 6
		case "*", "/", "%":
			return 4
		case "+", "-":
			return 3
		case "and", "or":
			return 1
		}
		return 2
	case Un:
		return 5
	}
	return 9
}

// src prints e with the fewest parentheses under the DOCUMENTED precedence and
// associativity, so that the compiler's own grouping is what is being tested.
func src(e Expr) string {
	switch x := e.(type) {
	case Lit:
		if x.Bare {
			return litText(x.V)
		}
		if !x.V.T.Float() && x.V.T.Signed() && x.V.S() < 0 {
			return fmt.Sprintf("%s(%s)", x.V.T, litText(x.V))
		}
		return fmt.Sprintf("%s(%s)", x.V.T, litText(x.V))
	case Ref:
		return x.Name
	case Paren:
		return "(" + src(x.X) + ")"
	case Cast:
		return fmt.Sprintf("%s(%s)", x.To, src(x.X))
	case Un:
		in := src(x.X)
		if level(x.X) < 5 {
			in = "(" + in + ")"
		}
		if x.Op == "not" {
			return "not " + in
		}
		if strings.HasPrefix(in, "-") {
			return "-(" + in + ")"
		}
		return "-" + in
	case Bin:
		l, r := src(x.L), src(x.R)
		lv := level(x)
		if x.Op == "^" {
			if level(x.L) <= 6 {
				l = "(" + l + ")"
			}
			if level(x.R) < 6 {
				r = "(" + r + ")"
			}
		} else {
			if level(x.L) < lv {
				l = "(" + l + ")"
			}
			if level(x.R) <= lv {
				r = "(" + r + ")"
			}
		}
		return l + " " + x.Op + " " + r
	}
	panic("src")
}

// staticTaints names the documented groupings / forms the implementation is known (see
// KNOWN_FINDINGS.txt) to treat differently, when they occur in e.
func staticTaints(e Expr, c *ectx) {
	switch x := e.(type) {
	case Paren:
		staticTaints(x.X, c)
	case Cast:
		staticTaints(x.X, c)
	case Un:
		if b, ok := x.X.(Bin); ok && x.Op == "-" && b.Op == "^" {
			c.taint("precedence-unary-minus-power")
		}
		if l, ok := x.X.(Lit); ok && x.Op == "not" && l.Bare {
			c.taint("logic-on-untyped-literal")
		}
		staticTaints(x.X, c)
	case Bin:
		if l, ok := x.L.(Bin); ok {
			if x.Op == "and" && l.Op == "or" {
				c.taint("precedence-or-and")
			}
			isRel := x.Op == "<" || x.Op == "<=" || x.Op == ">" || x.Op == ">="
			if isRel && (l.Op == "==" || l.Op == "!=") {
				c.taint("precedence-equality-relational")
			}
		}
		if x.Op == "and" || x.Op == "or" {
			for _, o := range []Expr{x.L, x.R} {
				if l, ok := o.(Lit); ok && l.Bare {
					c.taint("logic-on-untyped-literal")
				}
			}
		}
		staticTaints(x.L, c)
		staticTaints(x.R, c)
	}
}

func stmtTaints(b []Stmt, c *ectx) {
	for _, s := range b {
		switch x := s.(type) {
		case Decl:
			staticTaints(x.Init, c)
		case Assign:
			staticTaints(x.E, c)
		case Return:
			staticTaints(x.E, c)
		case If:
			staticTaints(x.C, c)
			stmtTaints(x.Then, c)
			for _, e := range x.Elifs {
				staticTaints(e.C, c)
				stmtTaints(e.B, c)
			}
			stmtTaints(x.Else, c)
		case ForRange:
			for _, a := range x.Args {
				staticTaints(a, c)
			}
			stmtTaints(x.Body, c)
		case ForCond:
			staticTaints(x.C, c)
			stmtTaints(x.Body, c)
		case ForInf:
			stmtTaints(x.Body, c)
		}
	}
}

// ---- statements

type Stmt interface{}

type Decl struct {
	Name     string
	T        Ty
	Typed    bool
	Stateful bool
	Init     Expr
}
type Assign struct {
	Name string
	Op   string // "" or one of + - * / %
	E    Expr
}
type Elif struct {
	C Expr
	B []Stmt
}
type If struct {
	C     Expr
	Then  []Stmt
	Elifs []Elif
	Else  []Stmt
	HasEl bool
}
type ForRange struct {
	Var  string
	T    Ty
	Args []Expr
	Body []Stmt
}
type ForCond struct {
	C    Expr
	Body []Stmt
}
type ForInf struct{ Body []Stmt }
type Break struct{}
type Continue struct{}
type Return struct{ E Expr }

type Param struct {
	Name string
	T    Ty
}
type Func struct {
	Name   string
	Params []Param
	Ret    Ty
	Body   []Stmt
	Family string
}

func indent(n int) string { return strings.Repeat("    ", n) }

func srcBlock(b []Stmt, n int) string {
	var sb strings.Builder
	for _, s := range b {
		sb.WriteString(srcStmt(s, n))
	}
	return sb.String()
}

func srcStmt(s Stmt, n int) string {
	in := indent(n)
	switch x := s.(type) {
	case Decl:
		op := ":="
		if x.Stateful {
			op = "$="
		}
		if x.Typed {
			return fmt.Sprintf("%s%s %s %s %s\n", in, x.Name, x.T, op, src(x.Init))
		}
		return fmt.Sprintf("%s%s %s %s\n", in, x.Name, op, src(x.Init))
	case Assign:
		return fmt.Sprintf("%s%s %s= %s\n", in, x.Name, x.Op, src(x.E))
	case If:
		var sb strings.Builder
		fmt.Fprintf(&sb, "%sif %s {\n%s%s}", in, src(x.C), srcBlock(x.Then, n+1), in)
		for _, e := range x.Elifs {
			fmt.Fprintf(&sb, " else if %s {\n%s%s}", src(e.C), srcBlock(e.B, n+1), in)
		}
		if x.HasEl {
			fmt.Fprintf(&sb, " else {\n%s%s}", srcBlock(x.Else, n+1), in)
		}
		sb.WriteString("\n")
		return sb.String()
	case ForRange:
		var as []string
		for _, a := range x.Args {
			as = append(as, src(a))
		}
		return fmt.Sprintf("%sfor %s := range(%s) {\n%s%s}\n", in, x.Var, strings.Join(as, ", "), srcBlock(x.Body, n+1), in)
	case ForCond:
		return fmt.Sprintf("%sfor %s {\n%s%s}\n", in, src(x.C), srcBlock(x.Body, n+1), in)
	case ForInf:
		return fmt.Sprintf("%sfor {\n%s%s}\n", in, srcBlock(x.Body, n+1), in)
	case Break:
		return in + "break\n"
	case Continue:
		return in + "continue\n"
	case Return:
		return fmt.Sprintf("%sreturn %s\n", in, src(x.E))
	}
	panic(fmt.Sprintf("srcStmt %T", s))
}

func (f Func) Src() string {
	var ps []string
	for _, p := range f.Params {
		ps = append(ps, p.Name+" "+p.T.String())
	}
	return fmt.Sprintf("func %s(%s) %s {\n%s}\n", f.Name, strings.Join(ps, ", "), f.Ret, srcBlock(f.Body, 1))
}

// ---- reference interpreter

type flow int

const (
	fNext flow = iota
	fBreak
	fContinue
	fReturn
	fTrap
	fUnspec
)

type interp struct {
	c      *ectx
	env    map[string]Val
	state  map[string]Val // stateful variables, persists across calls
	isSt   map[string]bool
	ret    Val
	unspec string
}

const maxSteps = 20000

func (it *interp) eval(e Expr) Res {
	it.c.steps++
	if it.c.steps > maxSteps {
		return Res{Unspec: "step bound"}
	}
	switch x := e.(type) {
	case Lit:
		return okV(x.V)
	case Paren:
		return it.eval(x.X)
	case Ref:
		if it.isSt[x.Name] {
			return okV(it.state[x.Name])
		}
		v, ok := it.env[x.Name]
		if !ok {
			panic("harness: unbound " + x.Name)
		}
		return okV(v)
	case Cast:
		r := it.eval(x.X)
		if r.Trap || r.Unspec != "" {
			return r
		}
		return cast(it.c, x.To, r.V)
	case Un:
		r := it.eval(x.X)
		if r.Trap || r.Unspec != "" {
			return r
		}
		if x.Op == "not" {
			return okV(boolV(!r.V.Truthy()))
		}
		return negate(it.c, r.V)
	case Bin:
		l := it.eval(x.L)
		if l.Trap || l.Unspec != "" {
			return l
		}
		switch x.Op {
		case "and":
			if !l.V.Truthy() {
				return okV(boolV(false))
			}
			r := it.eval(x.R)
			if r.Trap || r.Unspec != "" {
				return r
			}
			return okV(boolV(r.V.Truthy()))
		case "or":
			if l.V.Truthy() {
				return okV(boolV(true))
			}
			r := it.eval(x.R)
			if r.Trap || r.Unspec != "" {
				return r
			}
			return okV(boolV(r.V.Truthy()))
		}
		r := it.eval(x.R)
		if r.Trap || r.Unspec != "" {
			return r
		}
		if l.V.T != r.V.T {
			panic(fmt.Sprintf("harness: ill-typed %s: %s vs %s", src(e), l.V.T, r.V.T))
		}
		switch x.Op {
		case "==", "!=", "<", "<=", ">", ">=":
			return okV(compare(x.Op, l.V, r.V))
		}
		return arith(it.c, x.Op, l.V, r.V)
	}
	panic("eval")
}

func (it *interp) set(name string, v Val) {
	if it.isSt[name] {
		it.state[name] = v
	} else {
		it.env[name] = v
	}
}

func (it *interp) bad(r Res) flow {
	if r.Trap {
		return fTrap
	}
	it.unspec = r.Unspec
	return fUnspec
}

func (it *interp) block(b []Stmt) flow {
	for _, s := range b {
		if f := it.stmt(s); f != fNext {
			return f
		}
	}
	return fNext
}

func (it *interp) stmt(s Stmt) flow {
	switch x := s.(type) {
	case Decl:
		r := it.eval(x.Init)
		if r.Trap || r.Unspec != "" {
			return it.bad(r)
		}
		if r.V.T != x.T {
			panic(fmt.Sprintf("harness: decl %s type %s init %s", x.Name, x.T, r.V.T))
		}
		if x.Stateful {
			it.isSt[x.Name] = true
			if _, ok := it.state[x.Name]; !ok {
				it.state[x.Name] = r.V
			}
		} else {
			it.env[x.Name] = r.V
		}
	case Assign:
		r := it.eval(x.E)
		if r.Trap || r.Unspec != "" {
			return it.bad(r)
		}
		if x.Op != "" {
			cur := it.eval(Ref{Name: x.Name, T: r.V.T})
			r = arith(it.c, x.Op, cur.V, r.V)
			if r.Trap || r.Unspec != "" {
				return it.bad(r)
			}
		}
		it.set(x.Name, r.V)
	case If:
		r := it.eval(x.C)
		if r.Trap || r.Unspec != "" {
			return it.bad(r)
		}
		if r.V.Truthy() {
			return it.block(x.Then)
		}
		for _, e := range x.Elifs {
			r := it.eval(e.C)
			if r.Trap || r.Unspec != "" {
				return it.bad(r)
			}
			if r.V.Truthy() {
				return it.block(e.B)
			}
		}
		if x.HasEl {
			return it.block(x.Else)
		}
	case ForRange:
		var vs []Val
		for _, a := range x.Args {
			r := it.eval(a)
			if r.Trap || r.Unspec != "" {
				return it.bad(r)
			}
			vs = append(vs, r.V)
		}
		start, end, step := mkInt(x.T, 0), vs[0], mkInt(x.T, 1)
		if len(vs) >= 2 {
			start, end = vs[0], vs[1]
		}
		if len(vs) == 3 {
			step = vs[2]
		}
		if step.U == 0 {
			it.unspec = "range step 0"
			return fUnspec
		}
		neg := x.T.Signed() && step.S() < 0
		for i := start; ; {
			if neg {
				if !(compare(">", i, end).U == 1) {
					break
				}
			} else if !(compare("<", i, end).U == 1) {
				break
			}
			it.c.steps++
			if it.c.steps > maxSteps {
				it.unspec = "step bound"
				return fUnspec
			}
			it.env[x.Var] = i
			f := it.block(x.Body)
			if f == fBreak {
				break
			}
			if f != fNext && f != fContinue {
				return f
			}
			// advancing past the type's range is not defined by the docs
			nx := arith(&ectx{}, "+", i, step)
			wrapped := (!neg && compare("<", nx.V, i).U == 1) || (neg && compare(">", nx.V, i).U == 1)
			if wrapped {
				it.unspec = "range counter overflow"
				return fUnspec
			}
			i = nx.V
		}
	case ForCond:
		for {
			it.c.steps++
			if it.c.steps > maxSteps {
				it.unspec = "step bound"
				return fUnspec
			}
			r := it.eval(x.C)
			if r.Trap || r.Unspec != "" {
				return it.bad(r)
			}
			if !r.V.Truthy() {
				break
			}
			f := it.block(x.Body)
			if f == fBreak {
				break
			}
			if f != fNext && f != fContinue {
				return f
			}
		}
	case ForInf:
		for {
			it.c.steps++
			if it.c.steps > maxSteps {
				it.unspec = "step bound"
				return fUnspec
			}
			f := it.block(x.Body)
			if f == fBreak {
				break
			}
			if f != fNext && f != fContinue {
				return f
			}
		}
	case Break:
		return fBreak
	case Continue:
		return fContinue
	case Return:
		r := it.eval(x.E)
		if r.Trap || r.Unspec != "" {
			return it.bad(r)
		}
		it.ret = r.V
		return fReturn
	default:
		panic(fmt.Sprintf("stmt %T", s))
	}
	return fNext
}

// call runs f on args with the given persistent state.
func refCall(f Func, args []Val, state map[string]Val) (Res, *ectx) {
	c := &ectx{}
	it := &interp{c: c, env: map[string]Val{}, state: state, isSt: map[string]bool{}}
	for i, p := range f.Params {
		it.env[p.Name] = args[i]
	}
	switch it.block(f.Body) {
	case fReturn:
		if it.ret.T != f.Ret {
			panic(fmt.Sprintf("harness: %s returns %s, declared %s\n%s", f.Name, it.ret.T, f.Ret, f.Src()))
		}
		return Res{V: it.ret}, c
	case fTrap:
		return Res{Trap: true}, c
	case fUnspec:
		return Res{Unspec: it.unspec}, c
	}
	return Res{Unspec: "function ended without return"}, c
}
