package main

// Deviation model for C19. KNOWN_FINDINGS.txt records that the compiler carries i8/i16/
// u8/u16 values in 32-bit registers without re-normalising them, treats casts inside one
// register class as no-ops, reinterprets instead of saturating and uses the trapping
// float->int conversions. This file is an interpreter of exactly that recorded behaviour
// (register-level semantics of the opcodes the findings name). It is used for one thing
// only: when an evaluation in which such a situation occurred diverges from the
// documentation, the divergence is accepted as the known finding only if the compiled
// code returned what this model predicts; anything else is a new violation. It never
// makes a divergence from the documentation acceptable by itself.

import (
	"fmt"
	"math"
)

// cv is a register value: ints of <= 32 bits live in a 32-bit register (I holds
// int64(int32)), 64-bit ints in a 64-bit one.
type cv struct {
	T Ty
	I int64
	F float64
}

type implOut struct {
	V     cv
	Trap  string // wasm trap / host error
	Unsup bool   // construct outside the deviation model
}

func is64(t Ty) bool { return t == I64 || t == U64 }

func wrapReg(t Ty, x int64) cv {
	if is64(t) {
		return cv{T: t, I: x}
	}
	return cv{T: t, I: int64(int32(x))}
}

func regOf(v Val) cv {
	if v.T.Float() {
		return cv{T: v.T, F: v.F}
	}
	if is64(v.T) {
		return cv{T: v.T, I: int64(v.U)}
	}
	if v.T.Signed() {
		return cv{T: v.T, I: int64(int32(v.S()))}
	}
	return cv{T: v.T, I: int64(int32(uint32(v.U)))}
}

// observe reads a register at the declared width, as the host does
func observe(c cv) Val {
	if c.T.Float() {
		return mkFloat(c.T, c.F)
	}
	return mkInt(c.T, uint64(c.I))
}

type implInterp struct {
	env   map[string]cv
	steps int
	ret   cv
}

func truthyReg(c cv) bool {
	if c.T.Float() {
		return c.F != 0
	}
	return c.I != 0
}

func b2r(b bool) cv {
	if b {
		return cv{T: U8, I: 1}
	}
	return cv{T: U8, I: 0}
}

func intPow[T int8 | int16 | int32 | int64 | uint8 | uint16 | uint32 | uint64](x T, n int) (r T, panicked bool) {
	// x/go/math.IntPow
	if n < 0 {
		if x == 0 {
			return 0, true
		}
		x = 1 / x
		n *= -1
	} else if n == 0 {
		return 1, false
	}
	y := T(1)
	for n > 1 {
		if n%2 == 1 {
			y *= x
			n--
		}
		x *= x
		n /= 2
	}
	return x * y, false
}

func (it *implInterp) arith(op string, a, b cv) implOut {
	t := a.T
	if t.Float() {
		x, y := a.F, b.F
		var r float64
		switch op {
		case "+":
			r = x + y
		case "-":
			r = x - y
		case "*":
			r = x * y
		case "/":
			r = x / y
		case "^":
			r = math.Pow(x, y)
		default:
			return implOut{Unsup: true}
		}
		if t == F32 {
			switch op {
			case "+":
				r = float64(float32(x) + float32(y))
			case "-":
				r = float64(float32(x) - float32(y))
			case "*":
				r = float64(float32(x) * float32(y))
			case "/":
				r = float64(float32(x) / float32(y))
			default:
				r = float64(float32(r))
			}
		}
		return implOut{V: cv{T: t, F: r}}
	}
	if op == "^" {
		var out int64
		var p bool
		switch t {
		case I8:
			var r int8
			r, p = intPow(int8(a.I), int(uint32(b.I)))
			out = int64(int32(uint32(r)))
		case I16:
			var r int16
			r, p = intPow(int16(a.I), int(uint32(b.I)))
			out = int64(int32(uint32(r)))
		case I32:
			var r int32
			r, p = intPow(int32(a.I), int(uint32(b.I)))
			out = int64(r)
		case U8:
			var r uint8
			r, p = intPow(uint8(a.I), int(uint32(b.I)))
			out = int64(int32(uint32(r)))
		case U16:
			var r uint16
			r, p = intPow(uint16(a.I), int(uint32(b.I)))
			out = int64(int32(uint32(r)))
		case U32:
			var r uint32
			r, p = intPow(uint32(a.I), int(uint32(b.I)))
			out = int64(int32(r))
		case I64:
			var r int64
			r, p = intPow(a.I, int(uint64(b.I)))
			out = r
		case U64:
			var r uint64
			r, p = intPow(uint64(a.I), int(uint64(b.I)))
			out = int64(r)
		}
		if p {
			return implOut{Trap: "host panic in pow"}
		}
		return implOut{V: cv{T: t, I: out}}
	}
	if is64(t) {
		x, y := a.I, b.I
		switch op {
		case "+":
			return implOut{V: cv{T: t, I: x + y}}
		case "-":
			return implOut{V: cv{T: t, I: x - y}}
		case "*":
			return implOut{V: cv{T: t, I: x * y}}
		case "/", "%":
			if y == 0 {
				return implOut{Trap: "integer divide by zero"}
			}
			if t.Signed() {
				if x == math.MinInt64 && y == -1 {
					if op == "/" {
						return implOut{Trap: "integer overflow"}
					}
					return implOut{V: cv{T: t, I: 0}}
				}
				if op == "/" {
					return implOut{V: cv{T: t, I: x / y}}
				}
				return implOut{V: cv{T: t, I: x % y}}
			}
			if op == "/" {
				return implOut{V: cv{T: t, I: int64(uint64(x) / uint64(y))}}
			}
			return implOut{V: cv{T: t, I: int64(uint64(x) % uint64(y))}}
		}
	}
	x, y := int32(a.I), int32(b.I)
	switch op {
	case "+":
		return implOut{V: wrapReg(t, int64(x+y))}
	case "-":
		return implOut{V: wrapReg(t, int64(x-y))}
	case "*":
		return implOut{V: wrapReg(t, int64(x*y))}
	case "/", "%":
		if y == 0 {
			return implOut{Trap: "integer divide by zero"}
		}
		if t.Signed() {
			if x == math.MinInt32 && y == -1 {
				if op == "/" {
					return implOut{Trap: "integer overflow"}
				}
				return implOut{V: wrapReg(t, 0)}
			}
			if op == "/" {
				return implOut{V: wrapReg(t, int64(x/y))}
			}
			return implOut{V: wrapReg(t, int64(x%y))}
		}
		if op == "/" {
			return implOut{V: wrapReg(t, int64(int32(uint32(x)/uint32(y))))}
		}
		return implOut{V: wrapReg(t, int64(int32(uint32(x)%uint32(y))))}
	}
	return implOut{Unsup: true}
}

func (it *implInterp) compare(op string, a, b cv) cv {
	if a.T.Float() {
		switch op {
		case "==":
			return b2r(a.F == b.F)
		case "!=":
			return b2r(a.F != b.F)
		case "<":
			return b2r(a.F < b.F)
		case "<=":
			return b2r(a.F <= b.F)
		case ">":
			return b2r(a.F > b.F)
		}
		return b2r(a.F >= b.F)
	}
	var lt, eq bool
	switch {
	case is64(a.T) && a.T.Signed():
		lt, eq = a.I < b.I, a.I == b.I
	case is64(a.T):
		lt, eq = uint64(a.I) < uint64(b.I), a.I == b.I
	case a.T.Signed():
		lt, eq = int32(a.I) < int32(b.I), int32(a.I) == int32(b.I)
	default:
		lt, eq = uint32(a.I) < uint32(b.I), uint32(a.I) == uint32(b.I)
	}
	switch op {
	case "==":
		return b2r(eq)
	case "!=":
		return b2r(!eq)
	case "<":
		return b2r(lt)
	case "<=":
		return b2r(lt || eq)
	case ">":
		return b2r(!lt && !eq)
	}
	return b2r(!lt)
}

// cast mirrors compiler/expression/cast.go EmitCast
func (it *implInterp) cast(to Ty, a cv) implOut {
	from := a.T
	class := func(t Ty) int {
		switch {
		case t == F64:
			return 3
		case t == F32:
			return 2
		case is64(t):
			return 1
		}
		return 0
	}
	fc, tc := class(from), class(to)
	if fc == tc {
		out := a
		out.T = to
		return implOut{V: out}
	}
	switch fc {
	case 0: // i32 register
		switch tc {
		case 1:
			if from.Signed() {
				return implOut{V: cv{T: to, I: int64(int32(a.I))}}
			}
			return implOut{V: cv{T: to, I: int64(uint32(a.I))}}
		case 2:
			if from.Signed() {
				return implOut{V: cv{T: to, F: float64(float32(int32(a.I)))}}
			}
			return implOut{V: cv{T: to, F: float64(float32(uint32(a.I)))}}
		case 3:
			if from.Signed() {
				return implOut{V: cv{T: to, F: float64(int32(a.I))}}
			}
			return implOut{V: cv{T: to, F: float64(uint32(a.I))}}
		}
	case 1: // i64 register
		switch tc {
		case 0:
			return implOut{V: wrapReg(to, a.I)}
		case 2:
			if from.Signed() {
				return implOut{V: cv{T: to, F: float64(float32(a.I))}}
			}
			return implOut{V: cv{T: to, F: float64(float32(uint64(a.I)))}}
		case 3:
			if from.Signed() {
				return implOut{V: cv{T: to, F: float64(a.I)}}
			}
			return implOut{V: cv{T: to, F: float64(uint64(a.I))}}
		}
	case 2, 3: // float source
		f := a.F
		if tc == 2 {
			return implOut{V: cv{T: to, F: float64(float32(f))}}
		}
		if tc == 3 {
			return implOut{V: cv{T: to, F: f}}
		}
		if math.IsNaN(f) {
			return implOut{Trap: "invalid conversion to integer"}
		}
		tr := math.Trunc(f)
		// the trapping truncation to the *register* type (signedness of the target)
		if tc == 0 {
			if to.Signed() {
				if tr < -2147483648 || tr > 2147483647 {
					return implOut{Trap: "integer overflow"}
				}
				return implOut{V: cv{T: to, I: int64(int32(tr))}}
			}
			if tr < 0 && tr > -1 {
				tr = 0
			}
			if tr < 0 || tr > 4294967295 {
				return implOut{Trap: "integer overflow"}
			}
			return implOut{V: cv{T: to, I: int64(int32(uint32(tr)))}}
		}
		if to.Signed() {
			if tr < -9223372036854775808.0 || tr >= 9223372036854775808.0 {
				return implOut{Trap: "integer overflow"}
			}
			return implOut{V: cv{T: to, I: int64(tr)}}
		}
		if tr < 0 || tr >= 18446744073709551616.0 {
			return implOut{Trap: "integer overflow"}
		}
		return implOut{V: cv{T: to, I: int64(uint64(tr))}}
	}
	return implOut{Unsup: true}
}

func (it *implInterp) eval(e Expr) implOut {
	it.steps++
	if it.steps > maxSteps {
		return implOut{Unsup: true}
	}
	switch x := e.(type) {
	case Lit:
		return implOut{V: regOf(x.V)}
	case Paren:
		return it.eval(x.X)
	case Ref:
		v, ok := it.env[x.Name]
		if !ok {
			return implOut{Unsup: true}
		}
		return implOut{V: v}
	case Cast:
		r := it.eval(x.X)
		if r.Trap != "" || r.Unsup {
			return r
		}
		return it.cast(x.To, r.V)
	case Un:
		r := it.eval(x.X)
		if r.Trap != "" || r.Unsup {
			return r
		}
		if x.Op == "not" {
			return implOut{V: b2r(!truthyReg(r.V))}
		}
		if r.V.T.Float() {
			return implOut{V: cv{T: r.V.T, F: -r.V.F}}
		}
		if is64(r.V.T) {
			return implOut{V: cv{T: r.V.T, I: -r.V.I}}
		}
		return implOut{V: wrapReg(r.V.T, int64(-int32(r.V.I)))}
	case Bin:
		l := it.eval(x.L)
		if l.Trap != "" || l.Unsup {
			return l
		}
		switch x.Op {
		case "and":
			if !truthyReg(l.V) {
				return implOut{V: b2r(false)}
			}
			r := it.eval(x.R)
			if r.Trap != "" || r.Unsup {
				return r
			}
			return implOut{V: b2r(truthyReg(r.V))}
		case "or":
			if truthyReg(l.V) {
				return implOut{V: b2r(true)}
			}
			r := it.eval(x.R)
			if r.Trap != "" || r.Unsup {
				return r
			}
			return implOut{V: b2r(truthyReg(r.V))}
		}
		r := it.eval(x.R)
		if r.Trap != "" || r.Unsup {
			return r
		}
		switch x.Op {
		case "==", "!=", "<", "<=", ">", ">=":
			return implOut{V: it.compare(x.Op, l.V, r.V)}
		}
		return it.arith(x.Op, l.V, r.V)
	}
	return implOut{Unsup: true}
}

const (
	iNext = iota
	iBreak
	iContinue
	iReturn
	iStop // trap or unsupported
)

func (it *implInterp) block(b []Stmt, out *implOut) int {
	for _, s := range b {
		if f := it.stmt(s, out); f != iNext {
			return f
		}
	}
	return iNext
}

func (it *implInterp) stmt(s Stmt, out *implOut) int {
	bad := func(r implOut) int { *out = r; return iStop }
	switch x := s.(type) {
	case Decl:
		if x.Stateful {
			return bad(implOut{Unsup: true})
		}
		r := it.eval(x.Init)
		if r.Trap != "" || r.Unsup {
			return bad(r)
		}
		v := r.V
		v.T = x.T
		it.env[x.Name] = v
	case Assign:
		r := it.eval(x.E)
		if r.Trap != "" || r.Unsup {
			return bad(r)
		}
		if x.Op != "" {
			r = it.arith(x.Op, it.env[x.Name], r.V)
			if r.Trap != "" || r.Unsup {
				return bad(r)
			}
		}
		it.env[x.Name] = r.V
	case If:
		r := it.eval(x.C)
		if r.Trap != "" || r.Unsup {
			return bad(r)
		}
		if truthyReg(r.V) {
			return it.block(x.Then, out)
		}
		for _, e := range x.Elifs {
			r := it.eval(e.C)
			if r.Trap != "" || r.Unsup {
				return bad(r)
			}
			if truthyReg(r.V) {
				return it.block(e.B, out)
			}
		}
		if x.HasEl {
			return it.block(x.Else, out)
		}
	case ForRange:
		var vs []cv
		for _, a := range x.Args {
			r := it.eval(a)
			if r.Trap != "" || r.Unsup {
				return bad(r)
			}
			vs = append(vs, r.V)
		}
		start, end, step := cv{T: x.T}, vs[0], cv{T: x.T, I: 1}
		if len(vs) >= 2 {
			start, end = vs[0], vs[1]
		}
		hasStep := len(vs) == 3
		if hasStep {
			step = vs[2]
		}
		for i := start; ; {
			it.steps++
			if it.steps > maxSteps {
				return bad(implOut{Unsup: true})
			}
			stop := false
			if hasStep && !(it.compare(">", step, cv{T: x.T}).I == 1) {
				stop = it.compare("<=", i, end).I == 1
			} else {
				stop = it.compare(">=", i, end).I == 1
			}
			if stop {
				break
			}
			it.env[x.Var] = i
			f := it.block(x.Body, out)
			if f == iBreak {
				break
			}
			if f == iReturn || f == iStop {
				return f
			}
			i = it.arith("+", i, step).V
		}
	case ForCond:
		for {
			it.steps++
			if it.steps > maxSteps {
				return bad(implOut{Unsup: true})
			}
			r := it.eval(x.C)
			if r.Trap != "" || r.Unsup {
				return bad(r)
			}
			if !truthyReg(r.V) {
				break
			}
			f := it.block(x.Body, out)
			if f == iBreak {
				break
			}
			if f == iReturn || f == iStop {
				return f
			}
		}
	case ForInf:
		for {
			it.steps++
			if it.steps > maxSteps {
				return bad(implOut{Unsup: true})
			}
			f := it.block(x.Body, out)
			if f == iBreak {
				break
			}
			if f == iReturn || f == iStop {
				return f
			}
		}
	case Break:
		return iBreak
	case Continue:
		return iContinue
	case Return:
		r := it.eval(x.E)
		if r.Trap != "" || r.Unsup {
			return bad(r)
		}
		it.ret = r.V
		return iReturn
	default:
		return bad(implOut{Unsup: true})
	}
	return iNext
}

// implCall predicts what the compiled code returns under the recorded deviations.
func implCall(f Func, args []Val) (v Val, trap string, ok bool) {
	it := &implInterp{env: map[string]cv{}}
	for i, p := range f.Params {
		it.env[p.Name] = regOf(args[i])
	}
	var out implOut
	switch it.block(f.Body, &out) {
	case iReturn:
		r := it.ret
		r.T = f.Ret
		return observe(r), "", true
	case iStop:
		if out.Unsup {
			return Val{}, "", false
		}
		return Val{}, out.Trap, true
	}
	return Val{}, "", false
}

var _ = fmt.Sprint
