// C19 — compiled Arc code computes what the language documentation says.
//
// Bounded exhaustive enumeration of programs x inputs against the real pipeline
// (text.Parse -> text.Analyze -> compiler.Compile -> wazero validate/instantiate -> Call):
//
//	(1) every function of a bounded program space (gen.go: all operators on all ten scalar
//	    types, operand/literal forms, all cast pairs and compounds, flat operator sequences
//	    printed without parentheses, logic and short circuit, depth-2 trees, locals,
//	    compound assignment, if/else-if/else with early return, stateful variables over call
//	    sequences, range/conditional/infinite loops with break/continue in every chain
//	    position, nesting) is called on the full cross product of a boundary argument
//	    alphabet and compared with a reference interpreter written from the documentation
//	    (ref.go, ast.go). Cases the documentation leaves open are counted, not judged.
//	(2) no-crash: every single-token mutation of a seed corpus and every token string up to
//	    a length bound inside a function body must yield diagnostics or a module that
//	    validates — never a panic.
package main

import (
	"context"
	"fmt"
	"os"
	"runtime"
	"sort"
	"strings"
	"sync"
	"sync/atomic"
	"time"

	"verifkit/vk"
)

var ctx = context.Background()

type famStat struct {
	Programs, Accepted, Rejected, Calls, Judged, Unspec, Traps, Diverged, Known int
}

type stats struct {
	mu       sync.Mutex
	fam      map[string]*famStat
	outcomes map[string]int
	rejects  map[string]int
}

func (s *stats) f(name string) *famStat {
	if s.fam[name] == nil {
		s.fam[name] = &famStat{}
	}
	return s.fam[name]
}

type job struct {
	funcs []Func
}

func argsFor(f Func, thorough bool) [][]Val {
	var per [][]Val
	for _, p := range f.Params {
		if strings.HasPrefix(f.Family, "loop") {
			per = append(per, small(p.T))
		} else if strings.HasPrefix(f.Family, "stateful") {
			b := boundary(p.T, false)
			if len(b) > 7 {
				b = append(append([]Val{}, b[:5]...), b[len(b)-2:]...)
			}
			per = append(per, b)
		} else {
			per = append(per, boundary(p.T, thorough))
		}
	}
	out := [][]Val{{}}
	for _, vs := range per {
		var nx [][]Val
		for _, pre := range out {
			for _, v := range vs {
				nx = append(nx, append(append([]Val{}, pre...), v))
			}
		}
		out = nx
	}
	return out
}

func argStr(a []Val) string {
	var s []string
	for _, v := range a {
		s = append(s, v.String())
	}
	return strings.Join(s, ", ")
}

// the taint a divergence is attributed to (fixed priority, most specific first)
var taintOrder = []string{"logic-on-untyped-literal", "precedence-unary-minus-power", "precedence-or-and", "precedence-equality-relational",
	"pow-exponent-beyond-int64", "float-to-int-overflow", "sign-cast-saturation", "narrowing-cast-truncation", "narrow-overflow"}

var staticTaint = map[string]bool{"logic-on-untyped-literal": true, "precedence-unary-minus-power": true, "precedence-or-and": true, "precedence-equality-relational": true}

func predStr(v Val, trap string) string {
	if trap != "" {
		return "error " + trap
	}
	return v.String()
}

func pickTaint(c *ectx) string {
	for _, t := range taintOrder {
		if c.taints[t] {
			return t
		}
	}
	return ""
}

type worker struct {
	r    *vk.Run
	st   *stats
	eng  *engine
	slot int
	th   bool
}

func (w *worker) report(f Func, fp, detail string, args string) {
	v := vk.Violationf(fp, "%s\nprogram (family %s):\n%s%s", detail, f.Family, f.Src(), args)
	v.Scenario = "prog"
	v.Trace = []string{f.Src()}
	w.r.Report(v)
}

// judge one live function on all of its inputs
func (w *worker) judge(b built, f Func, nodeKey string) {
	fs := &famStat{}
	defer func() {
		w.st.mu.Lock()
		t := w.st.f(f.Family)
		t.Calls += fs.Calls
		t.Judged += fs.Judged
		t.Unspec += fs.Unspec
		t.Traps += fs.Traps
		t.Diverged += fs.Diverged
		t.Known += fs.Known
		w.st.mu.Unlock()
	}()
	w.eng.st.SetNodeKey(nodeKey)
	stateful := strings.Contains(f.Family, "stateful")
	argsets := argsFor(f, w.th)
	seqLen := 1
	if stateful {
		seqLen = 3
	}
	outc := map[string]int{}
	static := &ectx{}
	stmtTaints(f.Body, static)
	for ai, args := range argsets {
		state := map[string]Val{}
		w.eng.st.ClearNode(nodeKey)
		for k := 0; k < seqLen; k++ {
			cur := args
			if k == 1 && len(args) == 2 {
				cur = []Val{args[1], args[0]}
			}
			if k == 2 {
				cur = argsets[(ai+1)%len(argsets)]
			}
			want, c := refCall(f, cur, state)
			for _, t := range static.order {
				c.taint(t)
			}
			got := w.eng.call(ctx, b, f, cur)
			fs.Calls++
			if want.Unspec != "" {
				fs.Unspec++
				outc["unspecified"]++
				break // later calls of the sequence depend on undefined state
			}
			fs.Judged++
			desc := ""
			switch {
			case want.Trap:
				fs.Traps++
				outc["runtime-error"]++
				if got.Err == "" || !strings.Contains(got.Err, "divide by zero") {
					desc = fmt.Sprintf("documentation: runtime error (division/modulo by zero); compiled code: %s", outStr(got))
				}
			case got.Err != "":
				desc = fmt.Sprintf("documentation: %s; compiled code failed: %s", want.V, got.Err)
			case !got.V.Same(want.V):
				desc = fmt.Sprintf("documentation: %s; compiled code: %s", want.V, got.V)
			default:
				outc[want.V.String()]++
			}
			if desc != "" {
				fs.Diverged++
				t := pickTaint(c)
				fp := "wrong-result:" + f.Family + ":" + f.Params[0].T.String()
				if strings.HasPrefix(got.Err, "PANIC") {
					fp = "call-panics:" + f.Family
				} else if t != "" {
					fp = "documented-semantics-not-implemented:" + t
					// a known deviation explains the divergence only if the compiled code did
					// exactly what the recorded deviation predicts
					if !staticTaint[t] {
						if pv, ptrap, ok := implCall(f, cur); ok {
							match := false
							switch {
							case ptrap != "" && got.Err != "":
								match = strings.Contains(got.Err, ptrap) || (ptrap == "host panic in pow" && strings.Contains(got.Err, "negative power"))
							case ptrap == "" && got.Err == "":
								match = got.V.Same(pv)
							}
							if match {
								fs.Known++
							} else {
								fp = "wrong-result-beyond-known-deviation:" + f.Family + ":" + f.Params[0].T.String()
								desc += fmt.Sprintf("; the recorded deviation (%s) predicts %s", t, predStr(pv, ptrap))
							}
						}
					}
				}
				w.report(f, fp, desc, fmt.Sprintf("call %d of sequence, args (%s), taints %v", k+1, argStr(cur), c.order))
				if stateful {
					break
				}
			}
			if want.Trap {
				break
			}
		}
	}
	w.st.mu.Lock()
	w.st.outcomes[f.Family] += len(outc)
	w.st.mu.Unlock()
	w.eng.st.ClearNode(nodeKey)
}

func outStr(o callOut) string {
	if o.Err != "" {
		return "error " + o.Err
	}
	return o.V.String()
}

func firstLine(s string) string {
	if i := strings.Index(s, "\n"); i >= 0 {
		return s[:i]
	}
	return s
}

// classify a diagnostic text into a stable class (numbers and names removed)
func msgClass(s string) string {
	s = firstLine(s)
	if i := strings.Index(s, "error:"); i >= 0 {
		s = s[i+6:]
	}
	var sb strings.Builder
	for _, r := range s {
		if r >= '0' && r <= '9' {
			continue
		}
		sb.WriteRune(r)
	}
	out := strings.TrimSpace(sb.String())
	for _, t := range tyNames {
		out = strings.ReplaceAll(out, " "+t[:1]+" ", " T ")
	}
	if len(out) > 90 {
		out = out[:90]
	}
	return out
}

// compileClass names the root cause of a compile-stage error.
func compileClass(msg string) string {
	for _, kv := range [][2]string{
		{"float modulo", "float-modulo-not-implemented"},
		{"cannot convert non-integer float", "literal-checked-only-by-compiler"},
		{"invalid integer literal", "literal-checked-only-by-compiler"},
		{"out of range", "literal-checked-only-by-compiler"},
		{"unsupported symbol kind: KindFunction", "function-name-used-as-value"},
		{"undefined symbol", "undefined-symbol-found-only-by-compiler"},
		{"type invalid", "unresolved-type-reaches-compiler"},
		{"len()", "len-call-checked-only-by-compiler"},
		{"of len", "len-call-checked-only-by-compiler"},
	} {
		if strings.Contains(msg, kv[0]) {
			return kv[1]
		}
	}
	parts := strings.Split(firstLine(msg), ": ")
	return msgClass(parts[len(parts)-1])
}

// moduleClass names the root cause of a validation / instantiation failure of a module
// compiled from arbitrary (mutated) source.
func moduleClass(msg string) string {
	switch {
	case strings.Contains(msg, "is not exported in module"):
		return "missing-host-import"
	case strings.Contains(msg, "type mismatch"):
		return "ill-typed-source-accepted"
	}
	return msgClass(msg)
}

func (w *worker) one(f Func) {
	vk.Inflight(w.slot, "prog", []string{f.Src()})
	b := w.eng.build(ctx, f.Src())
	w.st.mu.Lock()
	fs := w.st.f(f.Family)
	fs.Programs++
	if b.stage == stOK {
		fs.Accepted++
	} else if b.panik == "" && (b.stage == stParse || b.stage == stAnalyze) {
		fs.Rejected++
		w.st.rejects[f.Family+": "+stageNames[b.stage]+": "+msgClass(b.msg)]++
	}
	w.st.mu.Unlock()
	switch {
	case b.panik != "":
		w.report(f, "pipeline-panics:"+stageNames[b.stage]+":"+f.Family, "the "+stageNames[b.stage]+" stage panicked: "+b.panik, "")
	case b.stage == stCompile:
		w.report(f, "accepted-but-does-not-compile:"+compileClass(b.msg), "the analyzer accepted the program but compilation failed: "+b.msg, "")
	case b.stage == stInstantiate:
		static := &ectx{}
		stmtTaints(f.Body, static)
		fp := "accepted-but-invalid-module:" + f.Family + ":" + f.Params[0].T.String()
		if t := pickTaint(static); t != "" {
			fp = "accepted-but-invalid-module:" + t
		}
		w.report(f, fp, "the compiled module does not validate/instantiate: "+b.msg, "")
	case b.stage == stOK:
		w.judge(b, f, fmt.Sprintf("n%d", w.eng.nkey))
		_ = b.mod.Close(ctx)
	}
}

func (w *worker) batch(fs []Func) {
	if len(fs) == 1 {
		w.one(fs[0])
		return
	}
	var sb strings.Builder
	for _, f := range fs {
		sb.WriteString(f.Src())
		sb.WriteString("\n")
	}
	vk.Inflight(w.slot, "prog", []string{sb.String()})
	b := w.eng.build(ctx, sb.String())
	if b.stage != stOK {
		for _, f := range fs {
			w.one(f)
		}
		return
	}
	w.st.mu.Lock()
	for _, f := range fs {
		t := w.st.f(f.Family)
		t.Programs++
		t.Accepted++
	}
	w.st.mu.Unlock()
	for _, f := range fs {
		vk.Inflight(w.slot, "prog", []string{f.Src()})
		w.judge(b, f, fmt.Sprintf("n%d", w.eng.nkey))
	}
	_ = b.mod.Close(ctx)
}

func collect(thorough bool) []Func {
	var all []Func
	g := &gen{thorough: thorough, emit: func(f Func) { all = append(all, f) }}
	g.all()
	return all
}

func main() {
	r := vk.New("C19", "exploration")
	thorough := !r.Quick()
	st := &stats{fam: map[string]*famStat{}, outcomes: map[string]int{}, rejects: map[string]int{}}
	all := collect(thorough)

	if r.Replay != "" {
		v, err := vk.LoadReplay(r.Replay)
		if err != nil {
			fmt.Fprintln(os.Stderr, err)
			os.Exit(2)
		}
		text := strings.Join(v.Trace, "\n")
		eng, err := newEngine(ctx)
		if err != nil {
			r.HarnessError("engine: %v", err)
			r.Finish()
		}
		w := &worker{r: r, st: st, eng: eng, th: thorough}
		n := 0
		for _, f := range all {
			if strings.Contains(text, f.Src()) {
				w.one(f)
				n++
			}
		}
		if n == 0 {
			nocrashOne(r, eng, text, "replay")
		}
		vk.ReplayRan()
		fmt.Printf("replayed %d program(s)\n", n)
		r.Finish()
	}

	nw := runtime.GOMAXPROCS(0)
	if nw > 16 {
		nw = 16
	}
	jobs := make(chan job, 64)
	var wg sync.WaitGroup
	var done, skipped atomic.Int64
	for i := 0; i < nw; i++ {
		wg.Add(1)
		go func(slot int) {
			defer wg.Done()
			eng, err := newEngine(ctx)
			if err != nil {
				r.HarnessError("engine: %v", err)
				return
			}
			defer eng.close(ctx)
			w := &worker{r: r, st: st, eng: eng, slot: slot, th: thorough}
			for j := range jobs {
				if time.Now().After(r.Deadline()) {
					skipped.Add(int64(len(j.funcs)))
					continue
				}
				w.batch(j.funcs)
				done.Add(int64(len(j.funcs)))
				vk.InflightIdle(slot)
			}
		}(i)
	}
	// batches of functions of one family (a family is accepted or rejected mostly as a whole)
	const B = 24
	for i := 0; i < len(all); {
		j := i
		for j < len(all) && j-i < B && all[j].Family == all[i].Family && all[j].Params[0].T == all[i].Params[0].T {
			j++
		}
		jobs <- job{funcs: all[i:j]}
		i = j
	}
	close(jobs)
	wg.Wait()

	// ---- part 2: no-crash on arbitrary source
	ncBuilt, ncAccepted, ncComplete := nocrash(r, all, thorough)

	// ---- evidence
	tot := famStat{}
	fams := map[string]any{}
	var names []string
	for n := range st.fam {
		names = append(names, n)
	}
	sort.Strings(names)
	for _, n := range names {
		f := st.fam[n]
		tot.Programs += f.Programs
		tot.Accepted += f.Accepted
		tot.Rejected += f.Rejected
		tot.Calls += f.Calls
		tot.Judged += f.Judged
		tot.Unspec += f.Unspec
		tot.Traps += f.Traps
		tot.Diverged += f.Diverged
		tot.Known += f.Known
		fams[n] = fmt.Sprintf("programs=%d accepted=%d rejected=%d calls=%d judged=%d unspecified=%d runtime-errors=%d diverged=%d distinct-outcomes=%d",
			f.Programs, f.Accepted, f.Rejected, f.Calls, f.Judged, f.Unspec, f.Traps, f.Diverged, st.outcomes[n])
	}
	distinct := 0
	for _, n := range st.outcomes {
		distinct += n
	}
	r.Set("evaluations", tot.Calls+int(ncBuilt))
	r.Set("distinct_nontrivial", distinct)
	r.Set("rule", "programs: gen.go families (every operator x type x operand form, all cast pairs and compounds, flat operator sequences, logic/short circuit, depth-2 trees, locals, compound assignment, conditionals with early return, stateful call sequences, loops with break/continue in every chain position); inputs: cross product of the boundary alphabet per parameter; no-crash: all single-token mutations/truncations of one seed per family and all body token strings up to the length bound. distinct_nontrivial = distinct (function, returned value) outcomes summed over functions")
	for i := 0; i < len(all) && i < 4000; i += 997 {
		r.Sample(map[string]string{"family": all[i].Family, "program": all[i].Src()})
	}
	r.Set("programs_generated", len(all))
	r.Set("programs_run", tot.Programs)
	r.Set("programs_accepted", tot.Accepted)
	r.Set("programs_rejected_by_analyzer", tot.Rejected)
	r.Set("calls", tot.Calls)
	r.Set("calls_judged", tot.Judged)
	r.Set("calls_unspecified_by_docs", tot.Unspec)
	r.Set("calls_expected_runtime_error", tot.Traps)
	r.Set("calls_diverged", tot.Diverged)
	r.Set("diverged_calls_matching_the_deviation_model", tot.Known)
	r.Set("families", fams)
	r.Set("rejections", st.rejects)
	r.Set("nocrash_sources", ncBuilt)
	r.Set("nocrash_accepted", ncAccepted)
	r.Set("exhaustive", skipped.Load() == 0 && ncComplete)
	r.Set("bound", fmt.Sprintf("expression depth 2 (+ flat 3-operator sequences), statement templates of gen.go, %d-value boundary alphabet per parameter, stateful sequences of 3 calls; tier %s", len(boundary(I32, thorough)), r.Tier))
	r.Assume("the reference interpreter (harness/arc/c19/ref.go, ast.go) is a faithful reading of arc/docs/spec.md and the Arc reference pages; cases they leave open are counted as unspecified and not judged")
	r.Assume("wazero's interpreter implements WebAssembly semantics; results are read at the declared width, as every host of compiled Arc code does")
	fmt.Printf("C19: programs=%d accepted=%d rejected=%d calls=%d judged=%d unspecified=%d diverged=%d nocrash=%d skipped=%d\n",
		tot.Programs, tot.Accepted, tot.Rejected, tot.Calls, tot.Judged, tot.Unspec, tot.Diverged, ncBuilt, skipped.Load())
	if os.Getenv("C19_VERBOSE") != "" {
		for _, n := range names {
			fmt.Printf("  %-22s %s\n", n, fams[n])
		}
		var rs []string
		for k, v := range st.rejects {
			rs = append(rs, fmt.Sprintf("%6d  %s", v, k))
		}
		sort.Strings(rs)
		for _, s := range rs {
			fmt.Println("  reject", s)
		}
	}
	r.Finish()
}
