package main

import (
	"fmt"

	"github.com/synnaxlabs/cesium"
	"github.com/synnaxlabs/cesium/zverif/cz"
	"github.com/synnaxlabs/x/telem"
)

func main() {
	w, err := cz.New(cz.Config{GridN: 5, AutoCommit: true, Channels: []cesium.ChannelKey{cz.T, cz.I64}})
	if err != nil {
		panic(err)
	}
	for _, op := range []string{"open 0 all 0 0", "write 0 2", "write 0 2", "write 0 1", "close 0"} {
		w.Apply(op)
	}
	it, err := w.DB.OpenIterator(cesium.IteratorConfig{Channels: []cesium.ChannelKey{cz.I64}, Bounds: telem.TimeRange{Start: w.Grid[0] + 1, End: telem.TimeStampMax}, AutoChunkSize: 2})
	if err != nil {
		panic(err)
	}
	fmt.Println("sf", it.SeekFirst())
	for i := 0; i < 5; i++ {
		ok := it.Next(cesium.AutoSpan)
		var got []string
		for _, s := range it.Value().Get(cz.I64).Series {
			got = append(got, fmt.Sprint(cz.Decode(cz.I64, s), s.TimeRange))
		}
		fmt.Println("next(auto)", ok, got, it.Error())
	}
	it.Close()
	w.Close()
}
