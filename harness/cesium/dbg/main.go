package main

import (
	"fmt"
	"os"
	"strings"

	"github.com/synnaxlabs/cesium"
	"github.com/synnaxlabs/cesium/zverif/cz"
	"github.com/synnaxlabs/x/telem"
)

func main() {
	w, err := cz.New(cz.Config{GridN: 5, FileCap: 10, AutoCommit: true, Channels: []cesium.ChannelKey{cz.T, cz.U8, cz.I64}, Persist: cesium.AlwaysIndexPersistOnAutoCommit})
	if err != nil {
		panic(err)
	}
	for _, op := range strings.Split(os.Args[1], ";") {
		o, err := w.Apply(op)
		fmt.Println(op, "->", o, err)
	}
	bs := cz.Bounds(w.Grid)
	for _, b := range bs[1:] {
		fr, err := w.DB.Read(cz.Ctx, telem.TimeRange{Start: 0, End: b}, w.Cfg.Channels...)
		fmt.Printf("[0,%d) err=%v ", int64(b), err)
		for _, k := range w.Cfg.Channels {
			var got []string
			for _, s := range fr.Get(k).Series {
				got = append(got, fmt.Sprint(cz.Decode(k, s), s.TimeRange.Start, s.TimeRange.End, s.Alignment))
			}
			fmt.Printf(" %d:%v", k, got)
		}
		fmt.Println()
	}
	w.Close()
}
