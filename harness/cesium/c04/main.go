// C04 — time-range deletes remove exactly the range; GC is invisible to readers.
//
// Explicit-state BFS on the public cesium.DB starting from several stored layouts
// (single domain, rolled-over contiguous domains, gapped sessions, data domains spanning
// several index domains): delete(channel set, [a,b)) with bounds on, 1ns before and 1ns
// after samples, repeated and nested; synchronous GC passes at any point; reopen; new
// sessions written into holes. After every step the full read sweep must equal the
// reference map with the deleted timestamps removed.
package main

import (
	"fmt"
	"os"
	"strings"
	"time"

	"github.com/synnaxlabs/cesium"
	"github.com/synnaxlabs/cesium/zverif/cz"
	"github.com/synnaxlabs/x/errors"
	"verifkit/seqx"
	"verifkit/vk"
)

type scenario struct {
	name   string
	cfg    cz.Config
	setup  []string
	writes bool // allow new write sessions (into holes)
	depth  int
}

type sys struct {
	w  *cz.World
	sc scenario
}

func (s *sys) Ops() []string {
	ops := s.w.DelOps()
	if s.sc.writes {
		ops = append(ops, s.w.Ops(2, 1)...)
	} else if s.w.Poisoned == "" {
		ops = append(ops, "reopen")
	}
	return ops
}

func (s *sys) Apply(op string) (string, error) {
	if strings.HasPrefix(op, "del ") || op == "gc" || op == "rgc" {
		return s.w.ApplyDel(op)
	}
	return s.w.Apply(op)
}
func (s *sys) Canon() string { return s.w.ModelCanon() + " real:" + s.w.RealDigest() }
func (s *sys) Check() error  { return s.w.Sweep("sweep") }
func (s *sys) Close()        { s.w.Close() }

func scenarios(quick bool) []scenario {
	g0 := []cesium.ChannelKey{cz.T, cz.I64, cz.Str}
	g0u8 := []cesium.ChannelKey{cz.T, cz.U8, cz.I64}
	always := cesium.AlwaysIndexPersistOnAutoCommit
	one := []string{"open 0 all 0 0", "write 0 2", "write 0 2", "write 0 1", "close 0"}
	gap := []string{"open 0 all 0 0", "write 0 2", "close 0", "open 0 all 3 0", "write 0 2", "close 0"}
	backfill := []string{"open 0 all 3 0", "write 0 2", "close 0", "open 0 all 0 0", "write 0 2", "close 0"}
	six := []string{"open 0 all 0 0", "write 0 2", "write 0 2", "write 0 2", "close 0"}
	var out []scenario
	add := func(q bool, sc scenario) {
		if q == quick {
			out = append(out, sc)
		}
	}
	add(true, scenario{"q1 one domain of 5 samples, T+i64+str, GC threshold ~0", cz.Config{GridN: 5, AutoCommit: true, Channels: g0, GC: 0.0000001, FileCap: 1000}, one, false, 2})
	add(true, scenario{"q2 rolled-over contiguous domains (tiny files), T+i64+str", cz.Config{GridN: 5, FileCap: 1, AutoCommit: true, Channels: g0, Persist: always, GC: 0.0000001}, one, false, 2})
	add(true, scenario{"q3 data domain spanning several index domains (10-byte files), T+u8+i64", cz.Config{GridN: 5, FileCap: 10, AutoCommit: true, Channels: g0u8, Persist: always, GC: 0.0000001}, one, false, 2})
	add(true, scenario{"q4 two gapped sessions, T+i64, deletes + new sessions into holes", cz.Config{GridN: 5, AutoCommit: true, Channels: []cesium.ChannelKey{cz.T, cz.I64}, GC: 0.0000001, FileCap: 1000}, gap, true, 3})
	add(true, scenario{"q5 back-filled sessions sharing data files (later range written first), T+i64", cz.Config{GridN: 5, AutoCommit: true, Channels: []cesium.ChannelKey{cz.T, cz.I64}, GC: 0.0000001, FileCap: 1000}, backfill, false, 2})
	add(false, scenario{"t6 back-filled sessions sharing data files, T+i64+str", cz.Config{GridN: 6, AutoCommit: true, Channels: g0, GC: 0.0000001, FileCap: 1000}, backfill, true, 3})
	add(false, scenario{"t1 one domain of 6 samples, T+i64+str", cz.Config{GridN: 6, AutoCommit: true, Channels: g0, GC: 0.0000001, FileCap: 1000}, six, false, 3})
	add(false, scenario{"t2 rolled-over contiguous domains (tiny files), T+i64+str", cz.Config{GridN: 6, FileCap: 1, AutoCommit: true, Channels: g0, Persist: always, GC: 0.0000001, FindingTag: "rolled-over-contiguous-domains"}, six, false, 3})
	add(false, scenario{"t3 data domain spanning several index domains, T+u8+i64", cz.Config{GridN: 6, FileCap: 10, AutoCommit: true, Channels: g0u8, Persist: always, GC: 0.2, FindingTag: "rolled-over-contiguous-domains"}, six, false, 3})
	add(false, scenario{"t4 gapped sessions + new sessions into holes, T+i64+str", cz.Config{GridN: 6, AutoCommit: true, Channels: g0, GC: 0.0000001, FileCap: 1000}, gap, true, 4})
	add(false, scenario{"t5 one domain, GC threshold 1 (never)", cz.Config{GridN: 5, AutoCommit: true, Channels: g0, GC: 1, FileCap: 1000}, one, false, 3})
	return out
}

func main() {
	r := vk.New("C04", "model_checking")
	mk := func(sc scenario) seqx.Config {
		return seqx.Config{Name: sc.name, MaxDepth: sc.depth, Seed: r.Seed,
			New: func() (seqx.Sys, error) {
				w, err := cz.New(sc.cfg)
				if err != nil {
					return nil, err
				}
				for _, op := range sc.setup {
					if o, err := w.Apply(op); err != nil || w.Poisoned != "" {
						return nil, fmt.Errorf("setup %s: %v %v %s", op, o, err, w.Poisoned)
					}
				}
				return &sys{w, sc}, nil
			}}
	}
	if r.Replay != "" {
		v, err := vk.LoadReplay(r.Replay)
		if err != nil {
			fmt.Fprintln(os.Stderr, err)
			os.Exit(2)
		}
		for _, sc := range append(scenarios(true), scenarios(false)...) {
			if sc.name == v.Scenario {
				if err := seqx.Replay(mk(sc), v.Trace); err != nil {
					var vv *vk.Violation
					if errors.As(err, &vv) {
						vv.Trace, vv.Scenario = v.Trace, v.Scenario
						r.Report(vv)
					} else {
						r.HarnessError("replay: %v", err)
					}
				} else {
					vk.NoRepro()
				}
			}
		}
		r.Finish()
	}
	scs := scenarios(r.Quick())
	for i, sc := range scs {
		cfg := mk(sc)
		cfg.Deadline = time.Now().Add(r.Left() / time.Duration(len(scs)-i))
		seqx.Merge(r, seqx.Explore(r, cfg))
	}
	r.Set("rule", "BFS from stored layouts over {delete(d1|dall|idx|all, [a,b)) with a<b from {t, t+1ns, some t-1ns, beyond the data} / gc (synchronous pass through the verif hook) / reopen / new write sessions}; dedup on (reference map, domain pieces, real full read + data file sizes); every new state: every half-open read over {0,t-1,t,t+1,max} for every channel == reference with deleted timestamps removed; index delete must be refused while an un-named dependant has samples in range; a failed delete must leave each named channel either untouched or exactly deleted")
	r.Assume("in-memory xfs.MemFS; go1.26.8 toolchain; deletes are issued only while no writer is open; an index delete the engine refuses although no dependant sample lies in the range is not judged (HasDataFor works on domain ranges); DB.Size()/file sizes are recorded in the canonical state, not judged")
	r.Finish()
}
