// C02 — cesium survives a crash at any point with consistent, durable data.
//
// Fault enumeration: every operation script is executed once per crash point k (and per
// torn variant of a write at k) over a crash-injecting filesystem (crashx) that lets
// exactly the first k mutating filesystem calls through. The resulting image is opened
// with the real cesium.Open and every channel is read back in full; it must equal the
// channel's content after some operation between the last durably completed one and the
// one in flight.
package main

import (
	"fmt"
	"os"
	"sort"
	"strconv"
	"strings"
	"sync"
	"time"

	"github.com/synnaxlabs/cesium"
	"github.com/synnaxlabs/cesium/zverif/crashx"
	"github.com/synnaxlabs/cesium/zverif/cz"
	xfs "github.com/synnaxlabs/x/io/fs"
	"github.com/synnaxlabs/x/telem"
	"verifkit/vk"
)

type script struct {
	name string
	cfg  cz.Config
	ops  []string
}

// state of the model after an op
type state struct {
	content map[cesium.ChannelKey][]string // nil entry = channel does not exist
	durable bool
}

type outcome struct {
	n         int // mutations issued
	log       []string
	kinds     []string
	sizes     []int
	states    []state // states[0] = empty database, states[1] = after channel creation, states[i+2] = after ops[i]
	crashedOp int     // index into states of the op in flight when the crash hit (-1 = none)
	mem       xfs.FS
	err       string
}

func snapshot(w *cz.World, all []cesium.ChannelKey) map[cesium.ChannelKey][]string {
	out := map[cesium.ChannelKey][]string{}
	for _, k := range all {
		if _, ok := w.Ref[k]; ok {
			c := w.Expected(k, 0, telem.TimeStampMax)
			if c == nil {
				c = []string{}
			}
			out[k] = c
		}
	}
	return out
}

func allKeys(sc script) []cesium.ChannelKey {
	ks := append([]cesium.ChannelKey{}, sc.cfg.Channels...)
	for _, op := range sc.ops {
		if strings.HasPrefix(op, "mkch ") {
			n, _ := strconv.Atoi(strings.Fields(op)[1])
			ks = append(ks, cesium.ChannelKey(n))
		}
	}
	return ks
}

func durableAfter(sc script, op string, prev bool, before string) bool {
	f := strings.Fields(op)
	switch f[0] {
	case "write":
		// an auto-committed write issued after a pause longer than the index persist interval
		// must flush the index (the pause is a lower bound on the time since the last flush)
		if sc.cfg.AutoCommit && sc.cfg.Persist > 0 && strings.HasPrefix(before, "sleep ") {
			ms, _ := strconv.Atoi(strings.Fields(before)[1])
			if telem.TimeSpan(ms)*telem.Millisecond > sc.cfg.Persist {
				return true
			}
		}
		if sc.cfg.AutoCommit {
			return prev && sc.cfg.Persist == cesium.AlwaysIndexPersistOnAutoCommit
		}
		return prev // nothing becomes visible before commit
	case "open", "sleep":
		return prev
	default: // commit, close, reopen, del, gc, rgc, mkch, rmch, rnch
		return true
	}
}

// run executes the script with a crash at mutation crashAt (-1: never).
func run(sc script, crashAt, torn int) (o outcome) {
	mem := xfs.NewMem()
	ctl := crashx.NewCtl(crashAt, torn)
	cfg := sc.cfg
	cfg.FS = crashx.Wrap(mem, ctl)
	o.mem, o.crashedOp = mem, -1
	keys := allKeys(sc)
	defer func() {
		if p := recover(); p != nil {
			o.err = fmt.Sprintf("panic while running the script: %v", p)
		}
		o.n, o.log, o.kinds, o.sizes = ctl.Count(), ctl.Log, ctl.Kinds, ctl.Sizes
	}()
	o.states = append(o.states, state{map[cesium.ChannelKey][]string{}, true})
	w, err := cz.New(cfg)
	if ctl.IsCrashed() {
		o.crashedOp = 1
		if w != nil {
			w.Close()
		}
		return
	}
	if err != nil {
		o.err = "cz.New: " + err.Error()
		return
	}
	defer w.Close()
	o.states = append(o.states, state{snapshot(w, keys), true})
	for i, op := range sc.ops {
		var obs string
		if strings.HasPrefix(op, "sleep ") {
			// lets a time-based index persist interval elapse between two commits; whether it
			// did is not assumed anywhere: the durable floor stays where it was
			ms, _ := strconv.Atoi(strings.Fields(op)[1])
			time.Sleep(time.Duration(ms) * time.Millisecond)
		} else if strings.HasPrefix(op, "del ") || op == "gc" || op == "rgc" {
			obs, err = w.ApplyDel(op)
		} else {
			obs, err = w.Apply(op)
		}
		if ctl.IsCrashed() {
			o.crashedOp = i + 2
			return
		}
		if err != nil || w.Poisoned != "" || strings.HasPrefix(obs, "refused") {
			o.err = fmt.Sprintf("script step %q did not succeed without a crash: %v %v %s", op, obs, err, w.Poisoned)
			return
		}
		before := ""
		if i > 0 {
			before = sc.ops[i-1]
		}
		o.states = append(o.states, state{snapshot(w, keys), durableAfter(sc, op, o.states[len(o.states)-1].durable, before)})
	}
	return
}

func eq(a, b []string) bool {
	if len(a) != len(b) {
		return false
	}
	for i := range a {
		if a[i] != b[i] {
			return false
		}
	}
	return true
}

// recoverAndCheck opens the crash image and compares every channel with the allowed states.
func recoverAndCheck(sc script, ref outcome, o outcome) *vk.Violation {
	f := o.crashedOp
	if f < 0 {
		f = len(ref.states) - 1
	}
	d := 0
	for j := 0; j < f && j < len(ref.states); j++ {
		if ref.states[j].durable {
			d = j
		}
	}
	if o.crashedOp < 0 {
		d = f
	}
	if f >= len(ref.states) {
		f = len(ref.states) - 1
	}
	inflight := "channel creation"
	if f >= 2 {
		inflight = sc.ops[f-2]
	}
	where := fmt.Sprintf("crash during %q (op %d), last mutations: %v", inflight, f, tail(o.log, 4))
	opts := []cesium.Option{cesium.WithFS(o.mem)}
	if sc.cfg.FileCap != 0 {
		opts = append(opts, cesium.WithFileSizeCap(sc.cfg.FileCap))
	}
	var db *cesium.DB
	var err error
	func() {
		defer func() {
			if p := recover(); p != nil {
				err = fmt.Errorf("panic: %v", p)
			}
		}()
		db, err = cesium.Open(cz.Ctx, "", opts...)
	}()
	if err != nil {
		fp := "reopen-fails:" + opKind(inflight) + ":" + lastKind(o.log)
		if k := opKind(inflight); k == "channel" || k == "mkch" {
			fp = "reopen-fails:interrupted-channel-creation"
		}
		return vk.Violationf(fp, "cesium.Open fails on the crash image: %v; %s", err, where)
	}
	defer db.Close()
	for _, k := range allKeys(sc) {
		_, cerr := db.RetrieveChannel(cz.Ctx, k)
		exists := cerr == nil
		var got []string
		if exists {
			var fr cesium.Frame
			var rerr error
			func() {
				defer func() {
					if p := recover(); p != nil {
						rerr = fmt.Errorf("panic: %v", p)
					}
				}()
				fr, rerr = db.Read(cz.Ctx, telem.TimeRangeMax, k)
			}()
			if rerr != nil {
				return vk.Violationf("read-fails-after-crash:"+opKind(inflight), "reading channel %d after recovery fails: %v; %s", k, rerr, where)
			}
			got = []string{}
			for _, s := range fr.Get(k).Series {
				got = append(got, cz.Decode(k, s)...)
			}
		}
		ok := false
		var allowed []string
		for j := d; j <= f; j++ {
			c, ex := ref.states[j].content[k]
			allowed = append(allowed, fmt.Sprintf("%d:%v", j, map[bool]any{true: c, false: "absent"}[ex]))
			if ex == exists && (!exists || eq(c, got)) {
				ok = true
			}
			// a channel whose creation/deletion is in flight may be absent or present-and-empty
		}
		if !ok {
			kind := "content"
			if !exists {
				kind = "channel-lost"
			}
			return vk.Violationf(classify(kind, opKind(inflight), k, o.log), "channel %d after recovery: exists=%v content=%v; allowed states (durable floor %d .. in-flight op %d): %v; %s", k, exists, got, d, f, allowed, where)
		}
	}
	return nil
}

// classify names the root cause of an inconsistent image where it can be told from the
// mutation log, so that a known finding covers one mechanism only.
func classify(kind, op string, k cesium.ChannelKey, log []string) string {
	if op == "gc" || op == "rgc" {
		return "gc-interrupted"
	}
	for _, c := range []cesium.ChannelKey{k, cz.IndexOf(k)} {
		file := fmt.Sprintf(" %d/index.domain", c)
		for i := len(log) - 1; i >= 0; i-- {
			if !strings.Contains(log[i], file) {
				continue
			}
			if strings.HasPrefix(log[i], "truncate") || strings.Contains(log[i], "TORN") {
				if strings.HasPrefix(log[i], "truncate") && op != "del" && op != "rmch" && shrinks(log, i, file) {
					// the recorded finding is a rewrite that never cuts below what was there;
					// cutting durable pointers off during a commit or close is something else
					return "index-truncated-below-its-durable-content:" + op
				}
				return "index-rewrite-interrupted"
			}
			break
		}
	}
	return "inconsistent-after-crash:" + kind + ":" + op + ":" + lastKind(log)
}

// shrinks reports whether the truncate at log[i] makes file shorter than the mutations
// before it had left it.
func shrinks(log []string, i int, file string) bool {
	size := 0
	for _, e := range log[:i] {
		if !strings.Contains(e, file) {
			continue
		}
		f := strings.Fields(e)
		switch f[0] {
		case "create", "open-trunc":
			size = 0
		case "truncate":
			size, _ = strconv.Atoi(f[len(f)-1])
		case "writeat":
			var off, n int
			fmt.Sscanf(f[len(f)-2]+" "+f[len(f)-1], "@%d %dB", &off, &n)
			if off+n > size {
				size = off + n
			}
		case "write":
			var n int
			fmt.Sscanf(f[len(f)-1], "%dB", &n)
			size += n
		}
	}
	f := strings.Fields(log[i])
	to, _ := strconv.Atoi(f[len(f)-1])
	return to < size
}

func tail(l []string, n int) []string {
	if len(l) > n {
		return l[len(l)-n:]
	}
	return l
}

func lastKind(log []string) string {
	if len(log) == 0 {
		return "start"
	}
	f := strings.Fields(log[len(log)-1])
	k := f[0]
	if len(f) > 1 {
		base := f[1]
		if i := strings.LastIndex(base, "/"); i >= 0 {
			base = base[i+1:]
		}
		switch {
		case strings.HasPrefix(base, "index.domain"):
			k += "-index"
		case strings.HasPrefix(base, "counter"):
			k += "-counter"
		case strings.HasPrefix(base, "meta"):
			k += "-meta"
		case strings.HasSuffix(base, "_gc") || strings.HasSuffix(base, "_temp"):
			k += "-gcfile"
		case strings.HasSuffix(base, ".domain"):
			k += "-data"
		default:
			k += "-dir"
		}
	}
	if strings.Contains(log[len(log)-1], "TORN") {
		k += "-torn"
	}
	return "after-" + k
}

func opKind(op string) string { return strings.Fields(op)[0] }

func scripts(quick bool) []script {
	g0 := []cesium.ChannelKey{cz.T, cz.I64, cz.Str}
	always := cesium.AlwaysIndexPersistOnAutoCommit
	ss := []script{
		{"s1 autocommit+always-persist, default files: two sessions, reopen", cz.Config{GridN: 5, AutoCommit: true, Persist: always, Channels: g0},
			[]string{"open 0 all 0 0", "write 0 2", "write 0 1", "close 0", "open 0 all 3 0", "write 0 2", "close 0", "reopen"}},
		{"s2 explicit commit, tiny files (every commit rolls over)", cz.Config{GridN: 5, FileCap: 1, Persist: always, Channels: g0},
			[]string{"open 0 all 0 0", "write 0 2", "commit 0", "write 0 2", "commit 0", "write 0 1", "close 0"}},
		{"s3 autocommit, index persisted at close only, 10-byte files", cz.Config{GridN: 5, FileCap: 10, AutoCommit: true, Channels: []cesium.ChannelKey{cz.T, cz.U8, cz.I64}},
			[]string{"open 0 all 0 0", "write 0 2", "write 0 2", "close 0", "open 0 all 4 0", "write 0 1", "close 0"}},
		{"s4 deletes and GC over one domain", cz.Config{GridN: 5, AutoCommit: true, Persist: always, Channels: g0, GC: 0.0000001, FileCap: 1000},
			[]string{"open 0 all 0 0", "write 0 2", "write 0 2", "write 0 1", "close 0", "del dall 4 7", "del all 9 10", "rgc", "del d1 0 3", "gc"}},
		{"s5 deletes and GC over rolled-over domains (tiny files)", cz.Config{GridN: 5, FileCap: 1, AutoCommit: true, Persist: always, Channels: g0, GC: 0.0000001},
			[]string{"open 0 all 0 0", "write 0 2", "write 0 2", "write 0 1", "close 0", "del dall 3 8", "gc", "del all 0 2", "gc"}},
		{"s6 back-filled sessions sharing files, delete, GC after reopen", cz.Config{GridN: 5, AutoCommit: true, Persist: always, Channels: []cesium.ChannelKey{cz.T, cz.I64}, GC: 0.0000001, FileCap: 1000},
			[]string{"open 0 all 3 0", "write 0 2", "close 0", "open 0 all 0 0", "write 0 2", "close 0", "del d1 9 10", "rgc"}},
		{"s10 autocommit, 20 ms persist interval, 20-byte files: commits extend a domain and roll the file over before the interval elapsed, later ones persist after it", cz.Config{GridN: 8, FileCap: 20, AutoCommit: true, Persist: 20 * telem.Millisecond, Channels: []cesium.ChannelKey{cz.T, cz.I64}},
			[]string{"open 0 all 0 0", "write 0 2", "write 0 2", "write 0 2", "sleep 45", "write 0 2", "close 0"}},
		{"s7 channel create / rename / delete next to data", cz.Config{GridN: 4, AutoCommit: true, Persist: always, Channels: []cesium.ChannelKey{cz.T, cz.I64}},
			[]string{"open 0 all 0 0", "write 0 2", "close 0", "mkch 4", "rnch 2", "mkch 3", "rmch 4", "rmch 3", "reopen"}},
	}
	if !quick {
		ss = append(ss,
			script{"s8 two index groups interleaved", cz.Config{GridN: 4, FileCap: 20, AutoCommit: true, Persist: always, Channels: []cesium.ChannelKey{cz.T, cz.I64, cz.T2, cz.I64b}},
				[]string{"open 0 all 0 0", "open 1 all 1 0", "write 0 2", "write 1 2", "close 0", "write 1 1", "close 1", "reopen"}},
			script{"s9 data-only session after index-only session", cz.Config{GridN: 4, AutoCommit: true, Persist: always, Channels: g0},
				[]string{"open 0 idx 0 0", "write 0 2", "write 0 2", "close 0", "open 0 data 0 0", "write 0 2", "write 0 2", "close 0"}},
		)
	}
	return ss
}

type job struct {
	sc   script
	ref  outcome
	k    int
	torn int
}

func main() {
	r := vk.New("C02", "fault_enumeration")
	quick := r.Quick()
	all := scripts(quick)
	if r.Replay != "" {
		v, err := vk.LoadReplay(r.Replay)
		if err != nil {
			fmt.Fprintln(os.Stderr, err)
			os.Exit(2)
		}
		for _, sc := range append(scripts(true), scripts(false)[len(scripts(true)):]...) {
			if sc.name != v.Scenario {
				continue
			}
			var k, torn int
			fmt.Sscanf(v.Trace[0], "crash-at %d torn %d", &k, &torn)
			ref := run(sc, -1, 0)
		if os.Getenv("C02_DEBUG") != "" && strings.HasPrefix(sc.name, os.Getenv("C02_DEBUG")) {
			for i, l := range ref.log {
				fmt.Fprintf(os.Stderr, "LOG %3d %s\n", i, l)
			}
		}
			// mutation order inside one commit follows Go map iteration: retry a few times
			for i := 0; i < 30; i++ {
				if viol := recoverAndCheck(sc, ref, run(sc, k, torn)); viol != nil {
					viol.Scenario, viol.Trace = v.Scenario, v.Trace
					r.Report(viol)
					break
				}
			}
			if r.Violations() == 0 {
				vk.ReplayRan()
				fmt.Println("replay: no violation reproduced in 30 attempts")
			}
		}
		r.Finish()
	}
	var jobs []job
	repeats := 6
	if !quick {
		repeats = 24
	}
	images, mutTotal := 0, 0
	for _, sc := range all {
		ref := run(sc, -1, 0)
		if os.Getenv("C02_DEBUG") != "" && strings.HasPrefix(sc.name, os.Getenv("C02_DEBUG")) {
			for i, l := range ref.log {
				fmt.Fprintf(os.Stderr, "LOG %3d %s\n", i, l)
			}
		}
		if ref.err != "" {
			r.HarnessError("script %s: %s", sc.name, ref.err)
			continue
		}
		if v := recoverAndCheck(sc, ref, ref); v != nil {
			v.Scenario, v.Trace = sc.name, []string{"crash-at -1 torn 0"}
			r.Report(v)
		}
		mutTotal += ref.n
		r.Sample(map[string]any{"script": sc.name, "ops": sc.ops, "mutations": ref.n, "first_mutations": ref.log[:min(8, len(ref.log))]})
		for rep := 0; rep < repeats; rep++ {
			for k := 0; k < ref.n; k++ {
				jobs = append(jobs, job{sc, ref, k, 0})
				if k < len(ref.kinds) && (ref.kinds[k] == "write" || ref.kinds[k] == "writeat") && rep == 0 {
					m := ref.sizes[k]
					seen := map[int]bool{}
					for _, t := range []int{1, m / 2, m - 1, 26, 52} {
						if t > 0 && t < m && !seen[t] {
							seen[t] = true
							jobs = append(jobs, job{sc, ref, k, t})
						}
					}
				}
			}
		}
	}
	var mu sync.Mutex
	var wg sync.WaitGroup
	ch := make(chan job)
	kinds := map[string]int{}
	capHit := false
	for w := 0; w < 16; w++ {
		wg.Add(1)
		go func() {
			defer wg.Done()
			for j := range ch {
				vk.Beat()
				o := run(j.sc, j.k, j.torn)
				if o.err != "" {
					v := vk.Violationf("script-panics-under-crash", "%s (crash-at %d)", o.err, j.k)
					v.Scenario, v.Trace = j.sc.name, []string{fmt.Sprintf("crash-at %d torn %d", j.k, j.torn)}
					r.Report(v)
					continue
				}
				v := recoverAndCheck(j.sc, j.ref, o)
				mu.Lock()
				images++
				kinds[lastKind(o.log)]++
				mu.Unlock()
				if v != nil {
					v.Scenario, v.Trace = j.sc.name, []string{fmt.Sprintf("crash-at %d torn %d", j.k, j.torn)}
					r.Report(v)
				}
			}
		}()
	}
	for _, j := range jobs {
		if time.Now().After(r.Deadline()) {
			capHit = true
			break
		}
		ch <- j
	}
	close(ch)
	wg.Wait()
	var ks []string
	for k, n := range kinds {
		ks = append(ks, fmt.Sprintf("%s=%d", k, n))
	}
	sort.Strings(ks)
	r.Set("evaluations", images)
	r.Set("distinct_nontrivial", len(kinds))
	r.Set("scripts", len(all))
	r.Set("mutations_in_scripts", mutTotal)
	r.Set("crash_images_by_last_mutation", ks)
	r.Set("exhaustive", !capHit)
	r.Set("rule", fmt.Sprintf("for each of %d scripts: every crash point k in [0, #mutations) x %d repeats (mutation order inside a commit follows Go map iteration) plus torn variants {1, m/2, m-1, 26, 52 bytes} of every write; image = first k mutating FS calls; recovered with cesium.Open and a full read of every channel; distinct_nontrivial counts the distinct kinds of last-applied mutation before the crash", len(all), repeats))
	r.Assume("process-crash model of the property: completed FS calls survive, no fsync needed, nothing after the crash point reaches the image; in-memory xfs.MemFS; go1.26.8 toolchain; per-channel oracle: content must equal the channel's content after some op between the last durably completed one and the one in flight")
	r.Finish()
}
