// Package cz drives the public cesium.DB with small write/delete/GC scripts and keeps a
// boring reference: map[channel]map[timestamp]value of committed samples. It is shared by
// the C01, C02, C04 and C10 harnesses.
package cz

import (
	"context"
	"fmt"
	"sort"
	"strings"
	"sync"

	"github.com/synnaxlabs/cesium"
	"github.com/synnaxlabs/x/errors"
	xfs "github.com/synnaxlabs/x/io/fs"
	"github.com/synnaxlabs/x/telem"
	"verifkit/vk"
)

var Ctx = context.Background()

// Channel keys. Group 0: T (index) with i64, str, u8; group 1: T2 with i64b.
const (
	T    cesium.ChannelKey = 1
	I64  cesium.ChannelKey = 2
	Str  cesium.ChannelKey = 3
	U8   cesium.ChannelKey = 4
	T2   cesium.ChannelKey = 11
	I64b cesium.ChannelKey = 12
)

func ChannelDefs() []cesium.Channel {
	return []cesium.Channel{
		{Key: T, Name: "T", IsIndex: true, DataType: telem.TimeStampT},
		{Key: I64, Name: "i64", Index: T, DataType: telem.Int64T},
		{Key: Str, Name: "str", Index: T, DataType: telem.StringT},
		{Key: U8, Name: "u8", Index: T, DataType: telem.Uint8T},
		{Key: T2, Name: "T2", IsIndex: true, DataType: telem.TimeStampT},
		{Key: I64b, Name: "i64b", Index: T2, DataType: telem.Int64T},
	}
}

func IndexOf(k cesium.ChannelKey) cesium.ChannelKey {
	if k >= 10 {
		return T2
	}
	return T
}

// Grid is a set of instants at non-uniform spacing so that "between samples", "on a
// domain boundary" and "outside stored data" all exist.
func Grid(n int) []telem.TimeStamp {
	base := []telem.TimeStamp{
		1 * telem.SecondTS, 2 * telem.SecondTS, 2*telem.SecondTS + 1, 5 * telem.SecondTS,
		6 * telem.SecondTS, 6*telem.SecondTS + 3, 9 * telem.SecondTS, 12 * telem.SecondTS,
	}
	return base[:n]
}

// Bounds returns the read-range boundary set for a grid.
func Bounds(grid []telem.TimeStamp) []telem.TimeStamp {
	set := map[telem.TimeStamp]bool{0: true, telem.TimeStampMax: true}
	for _, t := range grid {
		set[t-1], set[t], set[t+1] = true, true, true
	}
	var out []telem.TimeStamp
	for t := range set {
		out = append(out, t)
	}
	sort.Slice(out, func(i, j int) bool { return out[i] < out[j] })
	return out
}

// ValueOf is the value written for channel k at grid index i; it identifies (k, i).
func ValueOf(k cesium.ChannelKey, i int, grid []telem.TimeStamp) string {
	switch k {
	case T, T2:
		return fmt.Sprint(int64(grid[i]))
	case I64, I64b:
		return fmt.Sprint(int64(k)*1000 + int64(i))
	case U8:
		return fmt.Sprint(16 + i)
	case Str:
		// variable length, including empty samples (every fourth, among them the last of a
		// two-sample commit ending at an odd index)
		if i%4 == 1 {
			return ""
		}
		return fmt.Sprintf("s%d%s", i, strings.Repeat("x", i%3))
	}
	panic("bad key")
}

func seriesFor(k cesium.ChannelKey, idx []int, grid []telem.TimeStamp) telem.Series {
	switch k {
	case T, T2:
		v := make([]telem.TimeStamp, len(idx))
		for j, i := range idx {
			v[j] = grid[i]
		}
		return telem.NewSeries(v)
	case I64, I64b:
		v := make([]int64, len(idx))
		for j, i := range idx {
			v[j] = int64(k)*1000 + int64(i)
		}
		return telem.NewSeries(v)
	case U8:
		v := make([]uint8, len(idx))
		for j, i := range idx {
			v[j] = uint8(16 + i)
		}
		return telem.NewSeries(v)
	case Str:
		v := make([]string, len(idx))
		for j, i := range idx {
			v[j] = ValueOf(k, i, grid)
		}
		return telem.NewSeries(v)
	}
	panic("bad key")
}

// Decode renders the samples of a series as strings comparable with ValueOf.
func Decode(k cesium.ChannelKey, s telem.Series) []string {
	var out []string
	switch k {
	case T, T2:
		for _, v := range telem.UnmarshalSeries[telem.TimeStamp](s) {
			out = append(out, fmt.Sprint(int64(v)))
		}
	case I64, I64b:
		for _, v := range telem.UnmarshalSeries[int64](s) {
			out = append(out, fmt.Sprint(v))
		}
	case U8:
		for _, v := range telem.UnmarshalSeries[uint8](s) {
			out = append(out, fmt.Sprint(v))
		}
	case Str:
		out = append(out, telem.UnmarshalSeries[string](s)...)
	}
	return out
}

// Config of a world.
type Config struct {
	GridN      int
	FileCap    telem.Size // 0 = default
	AutoCommit bool
	Persist    telem.TimeSpan // cesium.AlwaysIndexPersistOnAutoCommit or 0 (default 1s: effectively at close)
	Channels   []cesium.ChannelKey
	GC         float32 // GC threshold (0 = default)
	FS         xfs.FS  // optional (default: fresh MemFS)
	// FindingTag, when set, replaces the kind of a read mismatch in its fingerprint: the
	// layout is one for which a recorded finding describes a whole family of symptoms.
	FindingTag string
	// PointReads asks a schedx harness to wrap the file system so that file reads are
	// scheduling points (interpreted by the harness, not by cz).
	PointReads bool
	// BusyIsLegal: a channel delete refused because a writer or iterator is open on the
	// channel is an expected answer (concurrent scenarios), not a broken script.
	BusyIsLegal bool
}

type dom struct{ s, e telem.TimeStamp } // half-open range a session committed for a channel

type session struct {
	w       *cesium.Writer
	chans   []cesium.ChannelKey
	start   telem.TimeStamp
	next    int   // grid index of the next sample
	pending []int // grid indexes written and not yet committed
	first   int
	commits int
	last    telem.TimeStamp // last committed index timestamp
}

// World is one real cesium.DB plus the reference.
type World struct {
	Cfg      Config
	Grid     []telem.TimeStamp
	FS       xfs.FS
	DB       *cesium.DB
	Ref      map[cesium.ChannelKey]map[int]bool // committed grid indexes per channel
	Doms     map[cesium.ChannelKey][]dom
	sess     [2]*session
	Poisoned string // set when a script step the model considers legal was refused
	// PartialDelete is set once a multi-channel delete was refused after it had already been
	// applied to some of its channels (it names the situation in read-mismatch fingerprints).
	PartialDelete bool
	// Dels counts the time-range deletes applied to this world.
	Dels int
	Reads    int
	mu       sync.Mutex // guards the reference model when harness threads run concurrently (C09)
}

func New(cfg Config) (*World, error) {
	w := &World{Cfg: cfg, Grid: Grid(cfg.GridN), FS: cfg.FS, Ref: map[cesium.ChannelKey]map[int]bool{}, Doms: map[cesium.ChannelKey][]dom{}}
	if w.FS == nil {
		w.FS = xfs.NewMem()
	}
	if err := w.open(); err != nil {
		return nil, err
	}
	var defs []cesium.Channel
	for _, d := range ChannelDefs() {
		for _, k := range cfg.Channels {
			if d.Key == k {
				defs = append(defs, d)
			}
		}
	}
	if err := w.DB.CreateChannel(Ctx, defs...); err != nil {
		return nil, err
	}
	for _, k := range cfg.Channels {
		w.Ref[k] = map[int]bool{}
	}
	return w, nil
}

func (w *World) open() error {
	opts := []cesium.Option{cesium.WithFS(w.FS)}
	if w.Cfg.FileCap != 0 {
		opts = append(opts, cesium.WithFileSizeCap(w.Cfg.FileCap))
	}
	if w.Cfg.GC != 0 {
		opts = append(opts, cesium.WithGCConfig(cesium.GCConfig{Threshold: w.Cfg.GC}))
	}
	db, err := cesium.Open(Ctx, "", opts...)
	w.DB = db
	return err
}

func (w *World) Close() {
	for _, s := range w.sess {
		if s != nil {
			_ = s.w.Close()
		}
	}
	if w.DB != nil {
		_ = w.DB.Close()
	}
}

func (w *World) has(k cesium.ChannelKey) bool {
	w.mu.Lock()
	defer w.mu.Unlock()
	for _, c := range w.Cfg.Channels {
		if c == k {
			return true
		}
	}
	return false
}

// channel sets a session can write
func (w *World) chanSet(group int, cs string) []cesium.ChannelKey {
	var idx cesium.ChannelKey = T
	data := []cesium.ChannelKey{I64, Str, U8}
	if group == 1 {
		idx, data = T2, []cesium.ChannelKey{I64b}
	}
	var out []cesium.ChannelKey
	if (cs == "all" || cs == "idx") && w.has(idx) {
		out = append(out, idx)
	}
	if cs == "all" || cs == "data" {
		for _, d := range data {
			if w.has(d) {
				out = append(out, d)
			}
		}
	}
	return out
}

func inDom(ds []dom, t telem.TimeStamp) bool {
	for _, d := range ds {
		if d.s <= t && t < d.e {
			return true
		}
	}
	return false
}

func overlapsDom(ds []dom, s, e telem.TimeStamp) bool {
	for _, d := range ds {
		if s < d.e && d.s < e {
			return true
		}
	}
	return false
}

// idxContinuous reports whether the index channel holds committed samples at every grid
// index in [from,to] inside one committed domain.
func (w *World) idxContinuous(idx cesium.ChannelKey, from, to int) bool {
	for i := from; i <= to; i++ {
		if !w.Ref[idx][i] {
			return false
		}
	}
	for _, d := range w.Doms[idx] {
		if d.s <= w.Grid[from] && w.Grid[to] < d.e {
			// no other committed index sample may be missing between them: grid indexes
			// between from and to are all committed (checked above) and lie in this domain
			return true
		}
	}
	return false
}

// Ops lists the enabled write-script ops.
func (w *World) Ops(maxChunk int, groups int) []string {
	if w.Poisoned != "" {
		return nil
	}
	var ops []string
	for g := 0; g < groups; g++ {
		s := w.sess[g]
		if s == nil {
			for _, cs := range []string{"all", "idx", "data"} {
				chans := w.chanSet(g, cs)
				if len(chans) == 0 || (cs == "all" && len(chans) < 2) {
					continue
				}
				for p := 0; p < len(w.Grid); p++ {
					for _, d := range []int{0, -1} {
						if w.openLegal(g, cs, chans, p, d) {
							ops = append(ops, fmt.Sprintf("open %d %s %d %d", g, cs, p, d))
						}
					}
				}
			}
			continue
		}
		for k := 1; k <= maxChunk; k++ {
			if w.writeLegal(s, k) {
				ops = append(ops, fmt.Sprintf("write %d %d", g, k))
			}
		}
		if !w.Cfg.AutoCommit && len(s.pending) > 0 {
			ops = append(ops, fmt.Sprintf("commit %d", g))
		}
		ops = append(ops, fmt.Sprintf("close %d", g))
	}
	if w.sess[0] == nil && w.sess[1] == nil {
		ops = append(ops, "reopen")
	}
	return ops
}

func (w *World) openLegal(g int, cs string, chans []cesium.ChannelKey, p, d int) bool {
	start := w.Grid[p] + telem.TimeStamp(d)
	hasIdx := chans[0] == T || chans[0] == T2
	if !hasIdx {
		if d != 0 {
			return false
		}
		// data-only: the index must already hold a sample exactly at the start
		if !w.Ref[IndexOf(chans[0])][p] {
			return false
		}
	}
	for _, c := range chans {
		if inDom(w.Doms[c], start) || inDom(w.Doms[c], w.Grid[p]) {
			return false
		}
	}
	return true
}

func (w *World) writeLegal(s *session, k int) bool {
	last := s.next + k - 1
	if last >= len(w.Grid) {
		return false
	}
	hasIdx := s.chans[0] == T || s.chans[0] == T2
	for _, c := range s.chans {
		// the domain this session will commit is [start, grid[last]+1): must stay clear of
		// every other committed domain of the channel
		var others []dom
		for _, d := range w.Doms[c] {
			if d.s != s.start {
				others = append(others, d)
			}
		}
		if overlapsDom(others, s.start, w.Grid[last]+1) {
			return false
		}
	}
	if !hasIdx && !w.idxContinuous(IndexOf(s.chans[0]), s.first, last) {
		return false
	}
	return true
}

// Apply executes a write-script op. A *vk.Violation is returned only for panics turned
// into errors by callers; refused legal steps poison the world (the property speaks of
// successful writes and commits only).
func (w *World) Apply(op string) (string, error) {
	f := strings.Fields(op)
	atoi := func(s string) int {
		var n int
		fmt.Sscan(s, &n)
		return n
	}
	switch f[0] {
	case "open":
		g, cs, p, d := atoi(f[1]), f[2], atoi(f[3]), atoi(f[4])
		chans := w.chanSet(g, cs)
		start := w.Grid[p] + telem.TimeStamp(d)
		cfg := cesium.WriterConfig{Start: start, Channels: chans, EnableAutoCommit: new(w.Cfg.AutoCommit),
			ErrOnUnauthorized: new(true), Sync: new(true), Mode: cesium.WriterModePersistOnly}
		if w.Cfg.Persist != 0 {
			cfg.AutoIndexPersistInterval = w.Cfg.Persist
		}
		cw, err := w.DB.OpenWriter(Ctx, cfg)
		if err != nil && w.Cfg.BusyIsLegal && strings.Contains(err.Error(), "not found") {
			// another thread deleted one of the channels between this thread listing them and
			// opening the writer (the listing is the harness's, not one call of the engine):
			// what a client does is open on the channels that still exist
			var still []cesium.ChannelKey
			for _, k := range chans {
				if _, e := w.DB.RetrieveChannel(Ctx, k); e == nil {
					still = append(still, k)
				}
			}
			chans, cfg.Channels = still, still
			cw, err = w.DB.OpenWriter(Ctx, cfg)
		}
		if err != nil {
			w.Poisoned = "open refused: " + err.Error()
			return "refused:" + short(err), nil
		}
		w.mu.Lock()
		w.sess[g] = &session{w: cw, chans: chans, start: start, next: p, first: p}
		w.mu.Unlock()
		return "ok", nil
	case "write":
		g, k := atoi(f[1]), atoi(f[2])
		s := w.sess[g]
		idx := make([]int, k)
		for j := range idx {
			idx[j] = s.next + j
		}
		var series []telem.Series
		for _, c := range s.chans {
			series = append(series, seriesFor(c, idx, w.Grid))
		}
		_, err := s.w.Write(telem.MultiFrame(s.chans, series))
		if err != nil {
			w.Poisoned = "write refused: " + err.Error()
			w.dropSession(g)
			return "refused:" + short(err), nil
		}
		s.next += k
		s.pending = append(s.pending, idx...)
		if w.Cfg.AutoCommit {
			w.commitModel(s)
		}
		return "ok", nil
	case "commit":
		g := atoi(f[1])
		s := w.sess[g]
		if _, err := s.w.Commit(); err != nil {
			w.Poisoned = "commit refused: " + err.Error()
			w.dropSession(g)
			return "refused:" + short(err), nil
		}
		w.commitModel(s)
		return "ok", nil
	case "close":
		g := atoi(f[1])
		w.mu.Lock()
		s := w.sess[g]
		w.sess[g] = nil
		w.mu.Unlock()
		if err := s.w.Close(); err != nil {
			w.Poisoned = "close failed: " + err.Error()
			return "refused:" + short(err), nil
		}
		return "ok", nil
	case "mkch":
		k := cesium.ChannelKey(atoi(f[1]))
		for _, d := range ChannelDefs() {
			if d.Key == k {
				if err := w.DB.CreateChannel(Ctx, d); err != nil {
					w.Poisoned = "create channel refused: " + err.Error()
					return "refused:" + short(err), nil
				}
			}
		}
		w.mu.Lock()
		w.Cfg.Channels = append(append([]cesium.ChannelKey{}, w.Cfg.Channels...), k)
		w.Ref[k] = map[int]bool{}
		w.mu.Unlock()
		return "ok", nil
	case "rmch":
		k := cesium.ChannelKey(atoi(f[1]))
		if err := w.DB.DeleteChannel(k); err != nil {
			if w.Cfg.BusyIsLegal && strings.Contains(err.Error(), "unclosed writers/iterators") {
				// another thread's writer is open on the channel: a legal refusal that
				// says nothing about the steps of that thread
				return "refused:busy", nil
			}
			w.Poisoned = "delete channel refused: " + err.Error()
			return "refused:" + short(err), nil
		}
		w.mu.Lock()
		var rest []cesium.ChannelKey
		for _, c := range w.Cfg.Channels {
			if c != k {
				rest = append(rest, c)
			}
		}
		w.Cfg.Channels = rest
		delete(w.Ref, k)
		delete(w.Doms, k)
		w.mu.Unlock()
		return "ok", nil
	case "rnch":
		k := cesium.ChannelKey(atoi(f[1]))
		if err := w.DB.RenameChannel(Ctx, k, "renamed"+f[1]); err != nil {
			w.Poisoned = "rename channel refused: " + err.Error()
			return "refused:" + short(err), nil
		}
		return "ok", nil
	case "reopen":
		if err := w.DB.Close(); err != nil {
			return "", vk.Violationf("db-close-error", "DB.Close failed: %v", err)
		}
		if err := w.open(); err != nil {
			w.DB = nil
			return "", vk.Violationf("reopen-error", "cesium.Open after a clean Close failed: %v", err)
		}
		return "ok", nil
	}
	return "", fmt.Errorf("cz: unknown op %q", op)
}

func (w *World) dropSession(g int) {
	if s := w.sess[g]; s != nil {
		_ = s.w.Close()
		w.sess[g] = nil
	}
}

func (w *World) commitModel(s *session) {
	w.mu.Lock()
	defer w.mu.Unlock()
	if len(s.pending) == 0 {
		return
	}
	end := w.Grid[s.pending[len(s.pending)-1]] + 1
	for _, c := range s.chans {
		for _, i := range s.pending {
			w.Ref[c][i] = true
		}
		found := false
		for j := range w.Doms[c] {
			if w.Doms[c][j].s == s.start {
				w.Doms[c][j].e = end
				found = true
			}
		}
		if !found {
			w.Doms[c] = append(w.Doms[c], dom{s.start, end})
		}
	}
	s.pending = nil
	s.commits++
}

func short(err error) string {
	s := err.Error()
	if len(s) > 48 {
		s = s[:48]
	}
	return s
}

// Expected returns the committed samples of channel k with a <= ts < b, ascending.
func (w *World) Expected(k cesium.ChannelKey, a, b telem.TimeStamp) []string {
	w.mu.Lock()
	defer w.mu.Unlock()
	var out []string
	for i, t := range w.Grid {
		if w.Ref[k][i] && a <= t && t < b {
			out = append(out, ValueOf(k, i, w.Grid))
		}
	}
	return out
}

// Keys returns a copy of the current channel list.
func (w *World) Keys() []cesium.ChannelKey {
	w.mu.Lock()
	defer w.mu.Unlock()
	return append([]cesium.ChannelKey{}, w.Cfg.Channels...)
}

// ModelCanon is the canonical model state.
func (w *World) ModelCanon() string {
	var b strings.Builder
	for _, k := range w.Cfg.Channels {
		fmt.Fprintf(&b, "%d:", k)
		for i := range w.Grid {
			if w.Ref[k][i] {
				fmt.Fprintf(&b, "%d,", i)
			}
		}
		ds := append([]dom{}, w.Doms[k]...)
		sort.Slice(ds, func(i, j int) bool { return ds[i].s < ds[j].s })
		for _, d := range ds {
			fmt.Fprintf(&b, "[%d,%d)", d.s, d.e)
		}
		b.WriteString(" ")
	}
	for g, s := range w.sess {
		if s == nil {
			continue
		}
		fmt.Fprintf(&b, "S%d{%v start=%d next=%d pend=%v commits=%d}", g, s.chans, s.start, s.next, s.pending, s.commits)
	}
	if w.Poisoned != "" {
		b.WriteString(" POISONED")
	}
	return b.String()
}

// RealDigest summarises the implementation's observable state cheaply: the full read of
// every channel plus the on-disk file sizes (rollover state).
func (w *World) RealDigest() string {
	var b strings.Builder
	fr, err := w.DB.Read(Ctx, telem.TimeRangeMax, w.Cfg.Channels...)
	if err != nil {
		fmt.Fprintf(&b, "readerr:%v", err)
	}
	for _, k := range w.Cfg.Channels {
		fmt.Fprintf(&b, "%d=", k)
		for _, s := range fr.Get(k).Series {
			fmt.Fprintf(&b, "%v@%v|", Decode(k, s), s.TimeRange)
		}
	}
	for _, k := range w.Cfg.Channels {
		infos, err := w.FS.List(fmt.Sprint(k))
		if err != nil {
			continue
		}
		for _, in := range infos {
			if strings.HasSuffix(in.Name(), ".domain") && in.Name() != "index.domain" {
				fmt.Fprintf(&b, "%d/%s:%d ", k, in.Name(), in.Size())
			}
		}
	}
	return b.String()
}

// Sweep issues every half-open read [a,b) over the boundary set for every channel through
// DB.Read and compares with the reference.
func (w *World) Sweep(tag string) error {
	bs := Bounds(w.Grid)
	for i, a := range bs {
		for _, b := range bs[i+1:] {
			if err := w.CheckRead(tag, a, b); err != nil {
				return err
			}
		}
	}
	return nil
}

func tsName(w *World, t telem.TimeStamp) string {
	if t == 0 {
		return "0"
	}
	if t == telem.TimeStampMax {
		return "max"
	}
	for i, g := range w.Grid {
		switch t {
		case g - 1:
			return fmt.Sprintf("g%d-1", i)
		case g:
			return fmt.Sprintf("g%d", i)
		case g + 1:
			return fmt.Sprintf("g%d+1", i)
		}
	}
	return fmt.Sprint(int64(t))
}

// CheckRead compares one range read of all channels with the reference.
func (w *World) CheckRead(tag string, a, b telem.TimeStamp) error {
	w.Reads++
	fr, err := w.DB.Read(Ctx, telem.TimeRange{Start: a, End: b}, w.Cfg.Channels...)
	if err != nil {
		return vk.Violationf("read-error", "[%s] Read[%s,%s) failed: %v (model %s)", tag, tsName(w, a), tsName(w, b), err, w.ModelCanon())
	}
	for _, k := range w.Cfg.Channels {
		var got []string
		for _, s := range fr.Get(k).Series {
			got = append(got, Decode(k, s)...)
		}
		want := w.Expected(k, a, b)
		if !equal(got, want) {
			kind := classify(got, want) + w.iterErrClass(k, a, b)
			if w.PartialDelete {
				kind += ":after-a-delete-refused-for-the-index-but-applied-to-its-data-channels"
			}
			if w.Cfg.FindingTag != "" && w.Dels > 0 {
				kind = "after-a-delete:" + w.Cfg.FindingTag
			}
			return vk.Violationf("read-mismatch:"+kind, "[%s] Read[%s,%s) channel %d returned %v, committed samples in range are %v (model %s)", tag, tsName(w, a), tsName(w, b), k, got, want, w.ModelCanon())
		}
	}
	return nil
}

// iterErrClass re-reads the range of one channel through an iterator and names the error
// it reports, if any: DB.Read returns whatever was collected and drops iterator errors, so a
// read that silently lost samples because the iterator failed is told apart from one that
// returned wrong samples without any error.
func (w *World) iterErrClass(k cesium.ChannelKey, a, b telem.TimeStamp) string {
	it, err := w.DB.OpenIterator(cesium.IteratorConfig{Channels: []cesium.ChannelKey{k}, Bounds: telem.TimeRange{Start: a, End: b}})
	if err != nil {
		return ":iterator-open-error"
	}
	defer func() { _ = it.Close() }()
	if it.SeekFirst() {
		for n := 0; n < 64 && it.Next(telem.TimeSpanMax); n++ {
		}
	}
	e := it.Error()
	if e == nil {
		return ""
	}
	m := e.Error()
	switch {
	case strings.Contains(m, "(0s) is not continuous in the index"):
		return ":iterator-error:zero-span-range-not-continuous-in-index"
	case strings.Contains(m, "is not continuous in the index"):
		return ":iterator-error:range-not-continuous-in-index"
	case strings.Contains(m, "does not exist in the index"):
		return ":iterator-error:timestamp-not-in-index"
	case strings.Contains(m, "failed to resolve position"):
		return ":iterator-error:position-unresolvable"
	}
	return ":iterator-error:other"
}

func equal(a, b []string) bool {
	if len(a) != len(b) {
		return false
	}
	for i := range a {
		if a[i] != b[i] {
			return false
		}
	}
	return true
}

func classify(got, want []string) string {
	ws := map[string]bool{}
	for _, x := range want {
		ws[x] = true
	}
	gs := map[string]int{}
	extra, dup := false, false
	for _, x := range got {
		gs[x]++
		if gs[x] > 1 {
			dup = true
		}
		if !ws[x] {
			extra = true
		}
	}
	missing := false
	for _, x := range want {
		if gs[x] == 0 {
			missing = true
		}
	}
	switch {
	case dup:
		return "duplicate"
	case extra && missing:
		return "shifted"
	case extra:
		return "extra"
	case missing:
		return "missing"
	}
	return "order"
}

// IsViolation unwraps a violation.
func IsViolation(err error) (*vk.Violation, bool) {
	var v *vk.Violation
	ok := errors.As(err, &v)
	return v, ok
}

// ---------- deletes and garbage collection (C04) ----------

// DelBounds is the reduced boundary set used for delete bounds: every grid point, 1ns
// after it, and 1ns before every second one (so all exact/inexact combinations occur).
func DelBounds(grid []telem.TimeStamp) []telem.TimeStamp {
	set := map[telem.TimeStamp]bool{}
	for i, t := range grid {
		set[t], set[t+1] = true, true
		if i%2 == 1 {
			set[t-1] = true
		}
	}
	set[grid[len(grid)-1]+2*telem.SecondTS] = true
	var out []telem.TimeStamp
	for t := range set {
		out = append(out, t)
	}
	sort.Slice(out, func(i, j int) bool { return out[i] < out[j] })
	return out
}

// DelSets are the channel sets a delete can name.
func (w *World) DelSets() map[string][]cesium.ChannelKey {
	out := map[string][]cesium.ChannelKey{}
	var data []cesium.ChannelKey
	for _, k := range w.Cfg.Channels {
		if k != T && k != T2 && IndexOf(k) == T {
			data = append(data, k)
		}
	}
	if len(data) > 0 {
		out["d1"] = data[:1]
	}
	if len(data) > 1 {
		out["dall"] = data
	}
	if w.has(T) {
		out["idx"] = []cesium.ChannelKey{T}
		out["all"] = append([]cesium.ChannelKey{T}, data...)
	}
	return out
}

// DelOps lists delete / gc ops (only when no session is open: a time-range delete is
// refused while it overlaps an open writer's region, which is C05/C09's subject).
func (w *World) DelOps() []string {
	if w.Poisoned != "" || w.sess[0] != nil || w.sess[1] != nil {
		return nil
	}
	var ops []string
	bs := DelBounds(w.Grid)
	var names []string
	for n := range w.DelSets() {
		names = append(names, n)
	}
	sort.Strings(names)
	for _, n := range names {
		for i := range bs {
			for j := i + 1; j < len(bs); j++ {
				ops = append(ops, fmt.Sprintf("del %s %d %d", n, i, j))
			}
		}
	}
	return append(ops, "gc", "rgc")
}

func (w *World) dataBytes() int64 {
	var tot int64
	for _, k := range w.Cfg.Channels {
		infos, err := w.FS.List(fmt.Sprint(k))
		if err != nil {
			continue
		}
		for _, in := range infos {
			if strings.HasSuffix(in.Name(), ".domain") && in.Name() != "index.domain" && in.Name() != "counter.domain" {
				tot += in.Size()
			}
		}
	}
	return tot
}

func (w *World) content(k cesium.ChannelKey) ([]string, error) {
	fr, err := w.DB.Read(Ctx, telem.TimeRangeMax, k)
	if err != nil {
		return nil, err
	}
	var got []string
	for _, s := range fr.Get(k).Series {
		got = append(got, Decode(k, s)...)
	}
	return got, nil
}

func (w *World) deleteModel(k cesium.ChannelKey, a, b telem.TimeStamp) {
	w.mu.Lock()
	defer w.mu.Unlock()
	for i, t := range w.Grid {
		if a <= t && t < b {
			delete(w.Ref[k], i)
		}
	}
	var nd []dom
	for _, d := range w.Doms[k] {
		if !(a < d.e && d.s < b) {
			nd = append(nd, d)
			continue
		}
		if d.s < a {
			nd = append(nd, dom{d.s, a})
		}
		if b < d.e {
			nd = append(nd, dom{b, d.e})
		}
	}
	w.Doms[k] = nd
}

// ApplyDel executes a delete or gc op.
func (w *World) ApplyDel(op string) (string, error) {
	f := strings.Fields(op)
	if f[0] == "del" {
		w.Dels++
	}
	if f[0] == "gc" || f[0] == "rgc" {
		// rgc = close + reopen + gc: after a reopen no data file is held by the writer pool, so
		// files below the size cap become collectable too
		if f[0] == "rgc" {
			if o, err := w.Apply("reopen"); err != nil {
				return o, err
			}
		}
		before := w.dataBytes()
		if err := w.DB.VerifGarbageCollect(Ctx); err != nil {
			return "", vk.Violationf("gc-error", "garbage collection failed: %v (model %s)", err, w.ModelCanon())
		}
		if w.dataBytes() < before {
			return "ok-compacted", nil
		}
		return "ok-nothing-to-collect", nil
	}
	var i, j int
	fmt.Sscan(f[2], &i)
	fmt.Sscan(f[3], &j)
	bs := DelBounds(w.Grid)
	a, b := bs[i], bs[j]
	chans := w.DelSets()[f[1]]
	named := map[cesium.ChannelKey]bool{}
	for _, c := range chans {
		named[c] = true
	}
	// must the index delete be refused? (some dependant that is not itself being deleted
	// first has committed samples in range)
	mustRefuse := false
	if named[T] {
		for _, k := range w.Cfg.Channels {
			if k != T && IndexOf(k) == T && !named[k] && len(w.Expected(k, a, b)) > 0 {
				mustRefuse = true
			}
		}
	}
	err := w.DB.DeleteTimeRange(Ctx, chans, telem.TimeRange{Start: a, End: b})
	desc := fmt.Sprintf("DeleteTimeRange(%v, [%s,%s))", chans, tsName(w, a), tsName(w, b))
	if err == nil {
		if mustRefuse {
			return "", vk.Violationf("index-delete-accepted", "%s succeeded although a channel indexed by T still has samples in the range (model %s)", desc, w.ModelCanon())
		}
		for _, c := range chans {
			w.deleteModel(c, a, b)
		}
		return "ok", nil
	}
	// refused or failed: every named channel must be either untouched or exactly deleted
	// (the call deletes channel by channel); un-named channels are checked by the sweep
	obs := "refused"
	for _, c := range chans {
		got, rerr := w.content(c)
		if rerr != nil {
			return "", vk.Violationf("read-error-after-failed-delete", "%s failed (%v) and channel %d is unreadable: %v", desc, err, c, rerr)
		}
		before := w.Expected(c, 0, telem.TimeStampMax)
		if equal(got, before) {
			continue
		}
		w.deleteModel(c, a, b)
		after := w.Expected(c, 0, telem.TimeStampMax)
		if !equal(got, after) {
			return "", vk.Violationf("failed-delete-partial", "%s failed (%v) and left channel %d with %v: neither the previous content %v nor the deleted content %v", desc, err, c, got, before, after)
		}
		obs = "refused-partial"
		w.PartialDelete = true
	}
	if mustRefuse {
		return obs + "-index-guard", nil
	}
	return obs + ":" + short(err), nil
}
