#!/bin/bash
# C05 = sequential BFS part (this package's main) + concurrent schedx part (../c05c).
# The sequential part writes its results to a part file which the schedx part merges.
HERE="$(cd "$(dirname "$0")/../../.." && pwd)"
. "$HERE/bin/env.sh"
mkdir -p "$HERE/build/bin"
if [ -n "${VERIF_REPLAY:-}" ] && ! grep -q '"scenario": *"K' "$VERIF_REPLAY"; then
  ( cd "$HERE/harness/cesium" && "$HERE/bin/gosum.sh" cesium && $VGO build -tags verif -o "$HERE/build/bin/c05" ./c05 ) || { echo "HARNESS-ERROR: build failed for C05" >&2; exit 2; }
  exec "$HERE/build/bin/c05"
fi
PART="$HERE/build/c05-part1.json"; rm -f "$PART"
if [ -z "${VERIF_REPLAY:-}" ]; then
  ( cd "$HERE/harness/cesium" && "$HERE/bin/gosum.sh" cesium && $VGO build -tags verif -o "$HERE/build/bin/c05" ./c05 ) || { echo "HARNESS-ERROR: build failed for C05" >&2; exit 2; }
  VERIF_PART_OUT="$PART" "$HERE/build/bin/c05" || { echo "HARNESS-ERROR: sequential part of C05 failed" >&2; exit 2; }
  export VERIF_PARTS="$PART"
fi
exec "$HERE/bin/schedx-run" cesium c05c "/repo/cesium /repo/x/go /repo/alamos/go"
