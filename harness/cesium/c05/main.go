// C05 — exactly one writer controls a channel region: highest authority wins.
//
// Part 1 (sequential, fixpoint): explicit-state BFS over the real control.Controller
// (cesium/internal/control) in exclusive and shared concurrency: open(subject, authority,
// time range[, error-on-unauthorized]) / set-authority / release over 3 subjects, 3
// authority levels and two disjoint regions. After every op: Authorize() of every live
// gate == (gate is the model's holder | shared: authority >= holder's), LeadingState ==
// model, the returned Transfer names exactly the previous and next holder, and the fold of
// all reported transfers reconstructs the current holder.
// Part 2 (engine level): the same kind of scripts through cesium.DB writers: the
// authorised flag of every Write and the subsequent Read agree with the model.
package main

import (
	"fmt"
	"os"
	"sort"
	"strings"
	"time"

	"github.com/synnaxlabs/cesium"
	"github.com/synnaxlabs/cesium/internal/channel"
	"github.com/synnaxlabs/cesium/internal/control"
	"github.com/synnaxlabs/cesium/zverif/cz"
	xcontrol "github.com/synnaxlabs/x/control"
	"github.com/synnaxlabs/x/errors"
	"github.com/synnaxlabs/x/telem"
	"verifkit/seqx"
	"verifkit/vk"
)

type res struct{ k channel.Key }

func (r res) ChannelKey() channel.Key { return r.k }

var ranges = map[string]telem.TimeRange{
	"A":  {Start: 10, End: 20},
	"A2": {Start: 15, End: 18},
	"B":  {Start: 30, End: 40},
}

func regionOf(r string) string { return r[:1] }

var auths = []xcontrol.Authority{0, 1, 255}

type mgate struct {
	subj string
	auth xcontrol.Authority
	pos  int
	g    *control.Gate[res]
}

type mregion struct {
	gates   []*mgate
	counter int
	// released counts the gates released while the region stayed alive. The model compares
	// positions only by order, but an implementation may number its gates in a way that
	// depends on how many have come and gone, so states that differ in this (up to 2) are
	// kept apart.
	released int
	recon    *[2]string // reconstructed holder (subject, authority) from reported transfers
}

func (r *mregion) holder() *mgate {
	var h *mgate
	for _, g := range r.gates {
		if h == nil || g.auth > h.auth || (g.auth == h.auth && g.pos < h.pos) {
			h = g
		}
	}
	return h
}

type csys struct {
	shared   bool
	subjects []string
	ctrl     *control.Controller[res]
	regs     map[string]*mregion
}

func newCsys(shared bool, subjects []string) (*csys, error) {
	cfg := control.Config{Concurrency: xcontrol.ConcurrencyExclusive}
	if shared {
		cfg.Concurrency = xcontrol.ConcurrencyShared
	}
	c, err := control.New[res](cfg)
	if err != nil {
		return nil, err
	}
	return &csys{shared: shared, subjects: subjects, ctrl: c, regs: map[string]*mregion{}}, nil
}

func (s *csys) Close() {}

func (s *csys) find(reg, subj string) *mgate {
	if r := s.regs[reg]; r != nil {
		for _, g := range r.gates {
			if g.subj == subj {
				return g
			}
		}
	}
	return nil
}

func (s *csys) Ops() []string {
	var ops []string
	for _, subj := range s.subjects {
		for _, rn := range []string{"A", "A2", "B"} {
			if s.find(regionOf(rn), subj) != nil {
				continue
			}
			for _, a := range auths {
				ops = append(ops, fmt.Sprintf("open %s %d %s", subj, a, rn))
			}
			if rn != "A2" {
				for _, a := range auths {
					ops = append(ops, fmt.Sprintf("openE %s %d %s", subj, a, rn))
				}
			}
		}
	}
	for _, reg := range []string{"A", "B"} {
		for _, subj := range s.subjects {
			if s.find(reg, subj) == nil {
				continue
			}
			for _, a := range auths {
				ops = append(ops, fmt.Sprintf("set %s %s %d", subj, reg, a))
			}
			ops = append(ops, fmt.Sprintf("rel %s %s", subj, reg))
		}
	}
	return ops
}

func st(g *mgate) string {
	if g == nil {
		return "nobody"
	}
	return fmt.Sprintf("%s(%d)", g.subj, g.auth)
}

func tstate(x *control.State) string {
	if x == nil {
		return "nobody"
	}
	return fmt.Sprintf("%s(%d)", x.Subject.Key, x.Authority)
}

// judge compares the reported transfer with the model's holder before/after.
func (s *csys) judge(op string, reg *mregion, before, after *mgate, beforeAuth xcontrol.Authority, t control.Transfer) error {
	b := "nobody"
	if before != nil {
		b = fmt.Sprintf("%s(%d)", before.subj, beforeAuth)
	}
	a := st(after)
	changed := a != b
	if !changed {
		if t.Occurred() {
			return vk.Violationf("spurious-transfer:"+opK(op), "%s reported transfer %s -> %s although the holder %s did not change", op, tstate(t.From), tstate(t.To), b)
		}
		return nil
	}
	if !t.Occurred() {
		return vk.Violationf("missing-transfer:"+opK(op), "%s changed the holder from %s to %s but reported no transfer", op, b, a)
	}
	if tstate(t.From) != b || tstate(t.To) != a {
		return vk.Violationf("wrong-transfer:"+opK(op), "%s changed the holder from %s to %s but reported %s -> %s", op, b, a, tstate(t.From), tstate(t.To))
	}
	// fold: From must equal the reconstruction so far
	rec := "nobody"
	if reg.recon != nil {
		rec = reg.recon[0]
	}
	if tstate(t.From) != rec {
		return vk.Violationf("transfers-do-not-reconstruct:"+opK(op), "%s: transfer starts from %s but the transfers reported so far reconstruct %s", op, tstate(t.From), rec)
	}
	if t.To == nil {
		reg.recon = nil
	} else {
		reg.recon = &[2]string{tstate(t.To), ""}
	}
	return nil
}

func opK(op string) string { return strings.Fields(op)[0] }

func (s *csys) Apply(op string) (string, error) {
	f := strings.Fields(op)
	switch f[0] {
	case "open", "openE":
		var a int
		fmt.Sscan(f[2], &a)
		regName := regionOf(f[3])
		reg := s.regs[regName]
		fresh := reg == nil
		if fresh {
			reg = &mregion{}
		}
		before := reg.holder()
		var bAuth xcontrol.Authority
		if before != nil {
			bAuth = before.auth
		}
		cfg := control.GateConfig[res]{
			OpenResource: func() (res, error) { return res{1}, nil },
			Subject:      xcontrol.Subject{Key: f[1]},
			TimeRange:    ranges[f[3]],
			Authority:    xcontrol.Authority(a),
		}
		if f[0] == "openE" {
			cfg.ErrOnUnauthorizedOpen = new(true)
		}
		g, t, err := s.ctrl.OpenGate(cfg)
		ng := &mgate{subj: f[1], auth: xcontrol.Authority(a), pos: reg.counter, g: g}
		takes := before == nil || ng.auth > before.auth
		sharedEqual := s.shared && before != nil && ng.auth == before.auth
		if f[0] == "openE" && !takes && !sharedEqual {
			if err == nil {
				return "", vk.Violationf("unauthorized-open-accepted", "%s succeeded although %s holds the region and error-on-unauthorized was requested", op, st(before))
			}
			if !errors.Is(err, xcontrol.ErrUnauthorized) {
				return "", vk.Violationf("unauthorized-open-wrong-error", "%s failed with %v, want ErrUnauthorized", op, err)
			}
			return "refused-unauthorized", nil
		}
		if err != nil {
			return "", vk.Violationf("open-error", "%s failed: %v (region %s)", op, err, s.regCanon(regName))
		}
		reg.gates = append(reg.gates, ng)
		reg.counter++
		s.regs[regName] = reg
		if err := s.judge(op, reg, before, reg.holder(), bAuth, t); err != nil {
			return "", err
		}
		return "ok", nil
	case "set":
		var a int
		fmt.Sscan(f[3], &a)
		reg := s.regs[f[2]]
		g := s.find(f[2], f[1])
		before := reg.holder()
		bAuth := before.auth
		t := g.g.SetAuthority(xcontrol.Authority(a))
		g.auth = xcontrol.Authority(a)
		if err := s.judge(op, reg, before, reg.holder(), bAuth, t); err != nil {
			return "", err
		}
		return "ok", nil
	case "rel":
		reg := s.regs[f[2]]
		g := s.find(f[2], f[1])
		before := reg.holder()
		bAuth := before.auth
		_, t := g.g.Release()
		var rest []*mgate
		for _, x := range reg.gates {
			if x != g {
				rest = append(rest, x)
			}
		}
		reg.gates = rest
		reg.released++
		if err := s.judge(op, reg, before, reg.holder(), bAuth, t); err != nil {
			return "", err
		}
		if len(reg.gates) == 0 {
			delete(s.regs, f[2])
		}
		return "ok", nil
	}
	return "", fmt.Errorf("unknown op %q", op)
}

func (s *csys) regCanon(name string) string {
	reg := s.regs[name]
	if reg == nil {
		return name + "{}"
	}
	gs := append([]*mgate{}, reg.gates...)
	sort.Slice(gs, func(i, j int) bool { return gs[i].pos < gs[j].pos })
	var b strings.Builder
	b.WriteString(name + "{")
	for _, g := range gs { // relative order only: positions are compared, never used as numbers
		fmt.Fprintf(&b, "%s:%d ", g.subj, g.auth)
	}
	fmt.Fprintf(&b, "holder=%s released=%d}", st(reg.holder()), min(reg.released, 2))
	return b.String()
}

func (s *csys) Canon() string {
	out := s.regCanon("A") + s.regCanon("B") + " real:"
	for _, name := range []string{"A", "B"} {
		if reg := s.regs[name]; reg != nil {
			gs := append([]*mgate{}, reg.gates...)
			sort.Slice(gs, func(i, j int) bool { return gs[i].subj < gs[j].subj })
			for _, g := range gs {
				_, err := g.g.Authorize()
				out += fmt.Sprintf("%s/%s=%v ", name, g.subj, err == nil)
			}
		}
	}
	return out + " lead=" + tstate(s.ctrl.LeadingState())
}

func (s *csys) Check() error {
	for _, name := range []string{"A", "B"} {
		reg := s.regs[name]
		if reg == nil {
			continue
		}
		h := reg.holder()
		n := 0
		for _, g := range reg.gates {
			_, err := g.g.Authorize()
			want := g == h
			if s.shared {
				want = g.auth >= h.auth
			}
			if (err == nil) != want {
				return vk.Violationf("authorize-mismatch", "gate %s in region %s: Authorize()=%v, model holder is %s (shared=%v); region %s", st(g), name, err, st(h), s.shared, s.regCanon(name))
			}
			if err == nil {
				n++
			}
		}
		if !s.shared && n != 1 {
			return vk.Violationf("not-exactly-one-controller", "region %s has %d authorised gates: %s", name, n, s.regCanon(name))
		}
	}
	want := "nobody"
	if r := s.regs["A"]; r != nil {
		want = st(r.holder())
	} else if r := s.regs["B"]; r != nil {
		want = st(r.holder())
	}
	if got := tstate(s.ctrl.LeadingState()); got != want {
		return vk.Violationf("leading-state-mismatch", "LeadingState=%s, model %s (%s%s)", got, want, s.regCanon("A"), s.regCanon("B"))
	}
	return nil
}

// ---------- engine level ----------

type wsess struct {
	w    *cesium.Writer
	auth xcontrol.Authority
	pos  int
	next int   // value counter
	pend []int // grid indices written with authority and not committed yet (manual commit)
	// refused: a write of this writer was refused after its last accepted write or commit. The model gives it no
	// effect, but states that differ in it are kept apart: an implementation may remember it.
	refused bool
}

type esys struct {
	w       *cz.World
	shared  bool
	manual  bool // writers commit explicitly; one writer at a time holds uncommitted data
	ws      map[string]*wsess
	counter int
	want    []string // values that must be readable on i64 (authorised, committed writes), in ts order
	nextTS  int
}

func newEsys() (*esys, error) {
	w, err := cz.New(cz.Config{GridN: 8, AutoCommit: true, Persist: cesium.AlwaysIndexPersistOnAutoCommit, Channels: []cesium.ChannelKey{cz.T, cz.I64}})
	if err != nil {
		return nil, err
	}
	return &esys{w: w, ws: map[string]*wsess{}}, nil
}

func newEsysManual() (*esys, error) {
	s, err := newEsys()
	if err != nil {
		return nil, err
	}
	s.manual = true
	return s, nil
}

func (s *esys) Close() {
	for _, x := range s.ws {
		_ = x.w.Close()
	}
	s.w.Close()
}

func (s *esys) holder() (string, *wsess) {
	var hn string
	var h *wsess
	for n, x := range s.ws {
		if h == nil || x.auth > h.auth || (x.auth == h.auth && x.pos < h.pos) {
			hn, h = n, x
		}
	}
	return hn, h
}

func (s *esys) Ops() []string {
	var ops []string
	for _, n := range []string{"a", "b", "c"} {
		if s.ws[n] == nil {
			for _, a := range auths {
				ops = append(ops, fmt.Sprintf("open %s %d", n, a))
			}
			continue
		}
		// manual commit: while one writer holds uncommitted data the others do not write with
		// authority into the same stretch (their sessions would overlap once committed); they may
		// still try without it
		hn, _ := s.holder()
		if u := s.uncommitted(); s.nextTS < len(s.w.Grid) && (!s.manual || u == "" || u == n || hn != n) {
			ops = append(ops, "write "+n)
		}
		for _, a := range auths {
			ops = append(ops, fmt.Sprintf("set %s %d", n, a))
		}
		if s.manual {
			ops = append(ops, "commit "+n)
		}
		ops = append(ops, "close "+n)
	}
	return ops
}

// uncommitted returns the writer that holds uncommitted data, if any
func (s *esys) uncommitted() string {
	for n, x := range s.ws {
		if len(x.pend) > 0 {
			return n
		}
	}
	return ""
}

func (s *esys) Apply(op string) (string, error) {
	if os.Getenv("C05_DEBUG") != "" {
		fmt.Fprintf(os.Stderr, "DBG canon=%s\n    ops=%v\n    apply %s\n", s.Canon(), s.Ops(), op)
	}
	f := strings.Fields(op)
	switch f[0] {
	case "open":
		var a int
		fmt.Sscan(f[2], &a)
		// every writer starts at the next unwritten grid point: all share the region [start, inf)
		start := s.w.Grid[min(s.nextTS, len(s.w.Grid)-1)]
		cw, err := s.w.DB.OpenWriter(cz.Ctx, cesium.WriterConfig{Start: start, Channels: []cesium.ChannelKey{cz.T, cz.I64},
			ControlSubject: xcontrol.Subject{Key: f[1]}, Authorities: []xcontrol.Authority{xcontrol.Authority(a)},
			Sync: new(true), EnableAutoCommit: new(!s.manual), AutoIndexPersistInterval: cesium.AlwaysIndexPersistOnAutoCommit, Mode: cesium.WriterModePersistOnly})
		if err != nil {
			return "refused:" + err.Error()[:min(40, len(err.Error()))], nil
		}
		if len(s.ws) == 0 {
			s.counter = 0
		}
		s.ws[f[1]] = &wsess{w: cw, auth: xcontrol.Authority(a), pos: s.counter}
		s.counter++
		return "ok", nil
	case "set":
		var a int
		fmt.Sscan(f[2], &a)
		x := s.ws[f[1]]
		if err := x.w.SetAuthority(cesium.WriterConfig{Authorities: []xcontrol.Authority{xcontrol.Authority(a)}}); err != nil {
			return "", vk.Violationf("set-authority-error", "%s failed: %v", op, err)
		}
		x.auth = xcontrol.Authority(a)
		return "ok", nil
	case "commit":
		x := s.ws[f[1]]
		hn, _ := s.holder()
		end, err := x.w.Commit()
		if hn != f[1] {
			// a commit without control: whatever it answers, it must have no effect (Check)
			if err != nil {
				return "", vk.Violationf("commit-error", "%s failed: %v (holder %s)", op, err, hn)
			}
			return "ok-not-holder", nil
		}
		if err != nil {
			return "", vk.Violationf("commit-error", "%s failed: %v (holder %s)", op, err, hn)
		}
		if len(x.pend) > 0 {
			last := x.pend[len(x.pend)-1]
			want := s.w.Grid[last] + 1
			switch {
			case end > want:
				return "", vk.Violationf("commit-covers-refused-write", "%s reported end %d; the last write accepted from this writer is at %d, so nothing it may commit lies past %d: a refused write had an effect (writers %s)", op, end, s.w.Grid[last], want, s.Canon())
			case end < want && x.refused:
				// The writer lost control and had a write refused since its last accepted
				// write: cesium holds its uncommitted samples back until it is next allowed to
				// write (documented in idxWriter.Commit). They stay pending.
				return "ok-held-back", nil
			case end < want:
				return "", vk.Violationf("commit-end-mismatch", "%s reported end %d; the last write it accepted from this writer is at %d, so the committed range ends at %d (writers %s)", op, end, s.w.Grid[last], want, s.Canon())
			}
			for _, i := range x.pend {
				s.want = append(s.want, cz.ValueOf(cz.I64, i, s.w.Grid))
			}
			x.pend = nil
		}
		x.refused = false
		return "ok", nil
	case "close":
		x := s.ws[f[1]]
		delete(s.ws, f[1])
		if err := x.w.Close(); err != nil {
			return "", vk.Violationf("writer-close-error", "%s failed: %v", op, err)
		}
		return "ok", nil
	case "write":
		x := s.ws[f[1]]
		hn, _ := s.holder()
		i := s.nextTS
		fr := telem.MultiFrame([]cesium.ChannelKey{cz.T, cz.I64}, []telem.Series{
			telem.NewSeriesV[telem.TimeStamp](s.w.Grid[i]), telem.NewSeriesV[int64](int64(cz.I64)*1000 + int64(i))})
		authorized, err := x.w.Write(fr)
		want := hn == f[1]
		if err != nil {
			return "", vk.Violationf("write-error", "%s failed: %v (holder %s)", op, err, hn)
		}
		if authorized != want {
			return "", vk.Violationf("authorized-flag-mismatch", "%s reported authorized=%v, model holder is %s (writers %s)", op, authorized, hn, s.Canon())
		}
		if want && s.manual {
			x.refused = false // refused counts from the last accepted write on
			x.pend = append(x.pend, i)
			s.nextTS++
			return "ok-authorized", nil
		}
		if want {
			s.want = append(s.want, cz.ValueOf(cz.I64, i, s.w.Grid))
			s.nextTS++
			return "ok-authorized", nil
		}
		x.refused = true
		return "ok-unauthorized", nil
	}
	return "", fmt.Errorf("unknown op %q", op)
}

func (s *esys) Canon() string {
	var ns []string
	for n := range s.ws {
		ns = append(ns, n)
	}
	sort.Slice(ns, func(i, j int) bool { return s.ws[ns[i]].pos < s.ws[ns[j]].pos })
	var b strings.Builder
	for _, n := range ns {
		fmt.Fprintf(&b, "%s:%d ", n, s.ws[n].auth)
		if len(s.ws[n].pend) > 0 {
			fmt.Fprintf(&b, "pend%v ", s.ws[n].pend)
		}
		if s.manual && s.ws[n].refused {
			b.WriteString("refused ")
		}
	}
	fmt.Fprintf(&b, "| written=%d | real:%v", s.nextTS, s.readAll())
	return b.String()
}

func (s *esys) readAll() []string {
	fr, err := s.w.DB.Read(cz.Ctx, telem.TimeRangeMax, cz.I64)
	if err != nil {
		return []string{"err:" + err.Error()}
	}
	var got []string
	for _, ser := range fr.Get(cz.I64).Series {
		got = append(got, cz.Decode(cz.I64, ser)...)
	}
	return got
}

func (s *esys) Check() error {
	got := s.readAll()
	if fmt.Sprint(got) != fmt.Sprint(append([]string{}, s.want...)) {
		return vk.Violationf("unauthorized-write-had-effect-or-authorized-lost", "Read returns %v, the authorised writes are %v (writers %s)", got, s.want, s.Canon())
	}
	return nil
}

func main() {
	r := vk.New("C05", "model_checking")
	type sc struct {
		name  string
		depth int
		mk    func() (seqx.Sys, error)
	}
	quick := r.Quick()
	d1, d2, d3 := 5, 4, 5
	if !quick {
		d1, d2, d3 = 9, 6, 7
	}
	scs := []sc{
		{"controller exclusive, 2 subjects, 2 regions", d1 + 1, func() (seqx.Sys, error) { return newCsys(false, []string{"a", "b"}) }},
		{"controller exclusive, 3 subjects, 2 regions", d1, func() (seqx.Sys, error) { return newCsys(false, []string{"a", "b", "c"}) }},
		{"controller shared, 3 subjects, 2 regions", d2, func() (seqx.Sys, error) { return newCsys(true, []string{"a", "b", "c"}) }},
		{"cesium writers on one exclusive channel group", d3, func() (seqx.Sys, error) { return newEsys() }},
		{"cesium writers with explicit commits on one exclusive channel group", d3 + 1, func() (seqx.Sys, error) { return newEsysManual() }},
	}
	mkcfg := func(x sc) seqx.Config {
		return seqx.Config{Name: x.name, MaxDepth: x.depth, Seed: r.Seed, New: x.mk}
	}
	if r.Replay != "" {
		v, err := vk.LoadReplay(r.Replay)
		if err != nil {
			fmt.Fprintln(os.Stderr, err)
			os.Exit(2)
		}
		for _, x := range scs {
			if x.name == v.Scenario {
				if err := seqx.Replay(mkcfg(x), v.Trace); err != nil {
					var vv *vk.Violation
					if errors.As(err, &vv) {
						vv.Trace, vv.Scenario = v.Trace, v.Scenario
						r.Report(vv)
					} else {
						r.HarnessError("replay: %v", err)
					}
				} else {
					vk.NoRepro()
				}
			}
		}
		r.Finish()
	}
	for i, x := range scs {
		if o := os.Getenv("C05_ONLY"); o != "" && !strings.Contains(x.name, o) {
			continue
		}
		cfg := mkcfg(x)
		cfg.Deadline = time.Now().Add(r.Left() / time.Duration(len(scs)-i))
		seqx.Merge(r, seqx.Explore(r, cfg))
	}
	r.Set("rule", "BFS over open(subject, authority in {0,1,255}, time range in {A, inside A, disjoint B}[, error-on-unauthorized]) / set-authority / release on the real control.Controller (exclusive and shared) - dedup on (gates in open order with authorities per region, Authorize vector, LeadingState); after every op: Authorize of every gate, LeadingState, the returned Transfer and the fold of all transfers are compared with the model (highest authority, ties by earliest open); plus cesium-level writers (open/write/set-authority/close) where the authorised flag of each Write and the subsequent Read must agree with the model")
	r.Assume("sequential histories only in this check (concurrent interleavings of these calls are the schedx part, see DESIGN); opens whose time range would bridge two regions are outside the alphabet; map-iteration order is the runtime's (release/update choose by a strict total order)")
	r.Finish()
}
