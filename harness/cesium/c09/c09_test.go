// C09 — concurrent cesium use is race-free and equivalent to a serial order.
//
// Every scenario runs 2-3 harness threads (each 1-2 public cesium operations chosen to
// collide: same index group, same files, same DB-level maps) under the schedx controlled
// scheduler: all interleavings at synchronisation points (mutex, rwmutex, atomics,
// waitgroups of cesium + x + alamos, rewritten to the shims) with a bounded number of
// preemptions. Oracle: no deadlock, no panic, every operation succeeds, and the content
// readable afterwards - in memory and after close+reopen - equals the content produced by
// running the same operations one after another (they commute, so the serial result is
// unique and computed by the harness itself without the scheduler).
package main

import (
	"fmt"
	"os"
	"sort"
	"strings"
	"sync"
	"testing"
	"time"

	"context"

	"github.com/synnaxlabs/cesium"
	"github.com/synnaxlabs/cesium/internal/domain"
	"github.com/synnaxlabs/cesium/zverif/cz"
	xfs "github.com/synnaxlabs/x/io/fs"
	"github.com/synnaxlabs/x/telem"
	"verifkit/schedx"
	"verifkit/vk"
)

type scenario struct {
	name    string
	cfg     cz.Config
	setup   []string
	threads [][]string // ops per thread: cz ops, "del ..", "gc", "read", "mkch K", "rmch K"
}

func always() telem.TimeSpan { return cesium.AlwaysIndexPersistOnAutoCommit }

func scenarios(quick bool) []scenario {
	two := []cesium.ChannelKey{cz.T, cz.I64, cz.T2, cz.I64b}
	base := []string{"open 0 all 0 0", "write 0 2", "close 0"}
	ss := []scenario{
		{"S1 write new session (group 0) || delete earlier range (group 0 data) || read",
			cz.Config{GridN: 5, AutoCommit: true, Persist: always(), Channels: []cesium.ChannelKey{cz.T, cz.I64}}, base,
			[][]string{{"open 0 all 3 0", "write 0 2", "close 0"}, {"del d1 0 1"}, {"read"}}},
		{"S2 write group 0 || write group 1 (always-persist commits)",
			cz.Config{GridN: 5, AutoCommit: true, Persist: always(), Channels: two}, nil,
			[][]string{{"open 0 all 0 0", "write 0 2", "close 0"}, {"open 1 all 1 0", "write 1 2", "close 1"}}},
		{"S3 write group 1 || delete group 0 range || garbage collect",
			cz.Config{GridN: 5, AutoCommit: true, Persist: always(), Channels: two, GC: 0.0000001, FileCap: 1}, base,
			[][]string{{"open 1 all 0 0", "write 1 2", "close 1"}, {"del d1 0 1"}, {"gc"}}},
	}
	// a variable-length channel whose domain grows while a reader rebuilds its offset table:
	// the reader of the old samples may be preempted inside its scan; the other thread commits
	// two more samples to the same domain, runs GC (which drops the offset cache) and then
	// reads exactly the new tail - which it must see, having committed it itself
	ss = append(ss, scenario{"S6 read of a growing variable-length domain || commit more; GC; read the new tail",
		cz.Config{GridN: 6, AutoCommit: true, Persist: always(), Channels: []cesium.ChannelKey{cz.T, cz.Str}, GC: 0.0000001, PointReads: true},
		[]string{"open 0 all 0 0", "write 0 3", "gc"},
		[][]string{{"rd 3 1 2"}, {"write 0 2", "gc", "rd 3 3 5", "close 0"}}})
	if !quick {
		ss = append(ss,
			scenario{"S4 create channel || delete channel || write existing",
				cz.Config{GridN: 5, AutoCommit: true, Persist: always(), Channels: []cesium.ChannelKey{cz.T, cz.I64, cz.U8}, BusyIsLegal: true}, base,
				[][]string{{"mkch 3"}, {"rmch 4"}, {"open 0 all 3 0", "write 0 1", "close 0"}}},
			scenario{"S5 write (lazy persist) || read || garbage collect",
				cz.Config{GridN: 5, AutoCommit: true, Channels: two, GC: 0.0000001, FileCap: 1}, base,
				[][]string{{"open 1 all 0 0", "write 1 2", "close 1"}, {"read"}, {"gc"}}},
		)
	}
	return ss
}

// observations of "rd K i j" ops (a read of channel K over [Grid[i], Grid[j])), keyed by
// world; part of the outcome, so only scenarios whose reads are order independent use it
var (
	obsMu sync.Mutex
	obs   = map[*cz.World][]string{}
)

func apply(w *cz.World, op string) error {
	var o string
	var err error
	switch {
	case strings.HasPrefix(op, "rd "):
		var k, i, j int
		fmt.Sscanf(op, "rd %d %d %d", &k, &i, &j)
		fr, err := w.DB.Read(cz.Ctx, telem.TimeRange{Start: w.Grid[i], End: w.Grid[j]}, cesium.ChannelKey(k))
		var got []string
		for _, s := range fr.Get(cesium.ChannelKey(k)).Series {
			got = append(got, cz.Decode(cesium.ChannelKey(k), s)...)
		}
		obsMu.Lock()
		obs[w] = append(obs[w], fmt.Sprintf("%s=%v", op, got))
		obsMu.Unlock()
		return err
	case op == "read":
		_, err = w.DB.Read(cz.Ctx, telem.TimeRangeMax, w.Keys()...)
		return err
	case strings.HasPrefix(op, "del ") || op == "gc":
		o, err = w.ApplyDel(op)
	default:
		o, err = w.Apply(op)
	}
	if err != nil {
		return err
	}
	if w.Poisoned != "" || strings.HasPrefix(o, "refused") {
		return fmt.Errorf("%s: %s %s", op, o, w.Poisoned)
	}
	return nil
}

func content(w *cz.World) string {
	keys := w.Keys()
	sort.Slice(keys, func(i, j int) bool { return keys[i] < keys[j] })
	var b strings.Builder
	for _, k := range keys {
		fr, err := w.DB.Read(cz.Ctx, telem.TimeRangeMax, k)
		var got []string
		for _, s := range fr.Get(k).Series {
			got = append(got, cz.Decode(k, s)...)
		}
		fmt.Fprintf(&b, "%d=%v err=%v; ", k, got, err)
	}
	return b.String()
}

// body runs one execution of the scenario; run is either the controlled scheduler or a
// plain sequential runner (reference).
func body(sc scenario) schedx.Body {
	return func(t *testing.T, run func(threads ...func()) bool) string {
		cfg := sc.cfg
		if cfg.PointReads {
			cfg.FS = ptFS{xfs.NewMem()}
		}
		w, err := cz.New(cfg)
		if err != nil {
			return "setup error: " + err.Error()
		}
		for _, op := range sc.setup {
			if err := apply(w, op); err != nil {
				w.Close()
				return "setup error: " + err.Error()
			}
		}
		errs := make([]string, len(sc.threads))
		var fs []func()
		g := curGate
		for i, ops := range sc.threads {
			fs = append(fs, func() {
				holding := false
				defer func() {
					if p := recover(); p != nil {
						errs[i] = fmt.Sprintf("panic: %v", p)
					}
					if g != nil && holding {
						g.exited[i] = true
						g.ack <- struct{}{}
					}
				}()
				for k, op := range ops {
					if g != nil {
						<-g.turn[i]
						holding = true
					}
					err := apply(w, op)
					if g != nil {
						g.exited[i] = err != nil || k == len(ops)-1
						holding = false
						g.ack <- struct{}{}
					}
					if err != nil {
						errs[i] = err.Error()
						return
					}
				}
			})
		}
		dl := run(fs...)
		obsMu.Lock()
		seen := append([]string{}, obs[w]...)
		delete(obs, w)
		obsMu.Unlock()
		sort.Strings(seen)
		out := fmt.Sprintf("errs=%q reads=%v ", errs, seen)
		if dl {
			return out + "DEADLOCK"
		}
		out += "mem: " + content(w)
		if o, err := w.Apply("reopen"); err != nil {
			out += fmt.Sprintf(" reopen: %v %v", o, err)
		} else {
			out += " reopened: " + content(w)
		}
		w.Close()
		return uuidRe(out)
	}
}

func uuidRe(s string) string { return s }

// ---------- domain level (same channel, disjoint time regions) ----------

type dscenario struct {
	name     string
	fileSize telem.Size
	gc       float32
	setup    []string
	threads  [][]string // "w s e" write one byte per unit over [s,e); "d a b" delete; "gc"
}

func dscenarios(quick bool) []dscenario {
	ss := []dscenario{
		{"D1 back-fill write on an earlier region || delete spanning two later domains", 0, 0,
			[]string{"w 30 40", "w 40 50", "w 60 70"}, [][]string{{"w 10 20"}, {"d 35 45"}}},
		{"D2 garbage collect || delete splitting a domain that compaction moves (shared file, tombstone in front)", 1000, 0.0000001,
			[]string{"w 10 14", "w 20 28", "d 10 12", "reopen"}, [][]string{{"gc"}, {"d 22 24"}}},
		{"D4 garbage collect || back-fill write || read of the moved domain", 1000, 0.0000001,
			[]string{"w 30 34", "w 40 48", "d 30 33", "reopen"}, [][]string{{"gc"}, {"w 10 12"}, {"r"}}},
		{"D5 write into the gap between two domains || delete spanning both domains", 0, 0,
			[]string{"w 10 20", "w 30 40"}, [][]string{{"w 22 28"}, {"d 15 35"}}},
		{"D6 two writers commit overlapping ranges (exactly one may succeed)", 0, 0,
			[]string{"w 40 50"}, [][]string{{"w 10 20"}, {"w 15 25"}}},
		{"D7 two writers commit the same range || a third writes next to it", 0, 0,
			nil, [][]string{{"w 10 20"}, {"w 10 20"}, {"w 20 30"}}},
		{"D3 commit(persist) of a new first domain || commit(persist) of a new last domain || delete in the middle", 0, 0,
			[]string{"w 30 40", "w 50 60"}, [][]string{{"w 10 20"}, {"w 70 80"}, {"d 32 38"}}},
	}
	return ss
}

func dapply(db *domain.DB, op string) error {
	f := strings.Fields(op)
	var a, b int64
	if len(f) > 2 {
		fmt.Sscan(f[1], &a)
		fmt.Sscan(f[2], &b)
	}
	switch f[0] {
	case "w":
		data := make([]byte, b-a)
		for i := range data {
			data[i] = byte(a) + byte(i)
		}
		w, err := db.OpenWriter(cz.Ctx, domain.WriterConfig{Start: telem.TimeStamp(a), End: telem.TimeStamp(b), AutoIndexPersistInterval: domain.AlwaysIndexPersistOnAutoCommit})
		if err != nil {
			return err
		}
		if _, err := w.Write(data); err != nil {
			_ = w.Close()
			return err
		}
		if err := w.Commit(cz.Ctx, telem.TimeStamp(b)); err != nil {
			_ = w.Close()
			return err
		}
		return w.Close()
	case "d":
		off := func(_ context.Context, ds, t telem.TimeStamp) (telem.Size, telem.TimeStamp, error) {
			return telem.Size(int64(t) - int64(ds)), t, nil
		}
		return db.Delete(cz.Ctx, telem.TimeRange{Start: telem.TimeStamp(a), End: telem.TimeStamp(b)}, off, off)
	case "gc":
		return db.GarbageCollect(cz.Ctx)
	case "r":
		_ = dcontent(db)
		return nil
	}
	return fmt.Errorf("bad op %q", op)
}

func dcontent(db *domain.DB) string {
	var b strings.Builder
	it := db.OpenIterator(domain.IterRange(telem.TimeRangeMax))
	for ok := it.SeekFirst(cz.Ctx); ok; ok = it.Next() {
		r, err := it.OpenReader(cz.Ctx)
		if err != nil {
			fmt.Fprintf(&b, "[%d,%d)err:%v ", it.TimeRange().Start, it.TimeRange().End, err)
			continue
		}
		buf := make([]byte, r.Size())
		_, rerr := r.ReadAt(buf, 0)
		_ = r.Close()
		if rerr != nil && len(buf) > 0 {
			fmt.Fprintf(&b, "[%d,%d)readerr:%v ", it.TimeRange().Start, it.TimeRange().End, rerr)
			continue
		}
		fmt.Fprintf(&b, "[%d,%d)%v ", it.TimeRange().Start, it.TimeRange().End, buf)
	}
	_ = it.Close()
	return b.String()
}

func dbody(sc dscenario) schedx.Body {
	return func(t *testing.T, run func(threads ...func()) bool) string {
		fs := xfs.NewMem()
		open := func() (*domain.DB, error) {
			return domain.Open(domain.Config{FS: fs, FileSize: sc.fileSize, GCThreshold: sc.gc})
		}
		db, err := open()
		if err != nil {
			return "setup error: " + err.Error()
		}
		for _, op := range sc.setup {
			if op == "reopen" {
				if err := db.Close(); err != nil {
					return "setup error: close: " + err.Error()
				}
				if db, err = open(); err != nil {
					return "setup error: reopen: " + err.Error()
				}
				continue
			}
			if err := dapply(db, op); err != nil {
				_ = db.Close()
				return "setup error: " + op + ": " + err.Error()
			}
		}
		errs := make([]string, len(sc.threads))
		var fsn []func()
		for i, ops := range sc.threads {
			fsn = append(fsn, func() {
				defer func() {
					if p := recover(); p != nil {
						errs[i] = fmt.Sprintf("panic: %v", p)
					}
				}()
				for _, op := range ops {
					if err := dapply(db, op); err != nil {
						errs[i] = err.Error()
						// a conflicting write is refused when the writer is opened or when it
						// commits, depending on who got there first: one class
						if strings.Contains(errs[i], "overlaps with existing data") {
							errs[i] = op + ": refused, overlaps with existing data"
						}
						return
					}
				}
			})
		}
		dl := run(fsn...)
		out := fmt.Sprintf("errs=%q ", errs)
		if dl {
			return out + "DEADLOCK"
		}
		out += "mem: " + dcontent(db)
		if err := db.Close(); err != nil {
			return out + " close: " + err.Error()
		}
		db, err = open()
		if err != nil {
			return out + " reopen: " + err.Error()
		}
		out += " reopened: " + dcontent(db)
		_ = db.Close()
		return out
	}
}

func opCounts(threads [][]string) []int {
	var c []int
	for _, ops := range threads {
		c = append(c, len(ops))
	}
	return c
}

func sequential(threads ...func()) bool {
	for _, f := range threads {
		f()
	}
	return false
}

// gate hands the turn to one thread at a time, one operation per turn: a serial execution
// of an interleaving of the threads' operations.
type gate struct {
	turn   []chan struct{}
	ack    chan struct{}
	exited []bool
}

// curGate is set while a reference outcome is being computed (never during exploration).
var curGate *gate

// serialRefs returns the outcomes of every serial execution of the operations: each
// operation runs to completion before the next starts, in every order that keeps each
// thread's own order (counts[i] operations for thread i). The property speaks of a serial
// order of operations, not of threads: a channel delete refused because another thread's
// writer is open at that moment is such an order. Where operations do not commute (a write
// into a range a concurrent delete covers) each order is a legal serial result. With
// counts == nil every thread is a single operation.
func serialRefs(t *testing.T, b schedx.Body, n int, counts []int) map[string]bool {
	out := map[string]bool{}
	if counts == nil {
		counts = make([]int, n)
		for i := range counts {
			counts[i] = 1
		}
	}
	total := 0
	for _, c := range counts {
		total += c
	}
	left := append([]int{}, counts...)
	order := make([]int, 0, total)
	gated := total > n
	var rec func()
	rec = func() {
		if len(order) == total {
			p := append([]int{}, order...)
			if !gated {
				out[b(t, func(threads ...func()) bool {
					for _, i := range p {
						threads[i]()
					}
					return false
				})] = true
				return
			}
			g := &gate{ack: make(chan struct{}), exited: make([]bool, n)}
			for i := 0; i < n; i++ {
				g.turn = append(g.turn, make(chan struct{}))
			}
			curGate = g
			out[b(t, func(threads ...func()) bool {
				var wg sync.WaitGroup
				for _, f := range threads {
					wg.Add(1)
					go func() { defer wg.Done(); f() }()
				}
				for _, i := range p {
					if g.exited[i] {
						continue // the thread stopped at a failed operation
					}
					g.turn[i] <- struct{}{}
					<-g.ack
				}
				wg.Wait()
				return false
			})] = true
			curGate = nil
			return
		}
		for i := 0; i < n; i++ {
			if left[i] > 0 {
				left[i]--
				order = append(order, i)
				rec()
				order = order[:len(order)-1]
				left[i]++
			}
		}
	}
	rec()
	return out
}

// TestRace is the free-running pass: the same scenario bodies, real sync primitives, built
// with -race. The cooperative scheduler's hand-offs are happens-before edges that blind the
// race detector, so unsynchronised accesses are looked for here (sampling, not exhaustive).
func TestRace(t *testing.T) {
	rounds := 6
	if os.Getenv("VERIF_TIER") == "thorough" {
		rounds = 300
	}
	free := func(threads ...func()) bool {
		var wg sync.WaitGroup
		for _, f := range threads {
			wg.Add(1)
			go func() { defer wg.Done(); f() }()
		}
		wg.Wait()
		return false
	}
	for i := 0; i < rounds; i++ {
		for _, sc := range dscenarios(false) {
			_ = dbody(sc)(t, free)
		}
		for _, sc := range scenarios(false) {
			_ = body(sc)(t, free)
		}
	}
	fmt.Println("RACE-PASS rounds", rounds)
}

var (
	inflightSlot int
	inflightName string
)

func TestCheck(t *testing.T) {
	r := vk.New("C09", "exploration")
	quick := r.Quick()
	scs := scenarios(quick)
	bound := 2
	if !quick {
		bound = 3
	}
	if r.Replay != "" {
		v, err := vk.LoadReplay(r.Replay)
		if err != nil {
			fmt.Fprintln(os.Stderr, err)
			os.Exit(2)
		}
		type ritem struct {
			name   string
			body   schedx.Body
			n      int
			counts []int
		}
		var ritems []ritem
		for _, sc := range dscenarios(quick) {
			ritems = append(ritems, ritem{sc.name, dbody(sc), len(sc.threads), nil})
		}
		for _, sc := range scs {
			ritems = append(ritems, ritem{sc.name, body(sc), len(sc.threads), opCounts(sc.threads)})
		}
		for _, sc := range ritems {
			if sc.name != v.Scenario {
				continue
			}
			var prefix []int
			for _, f := range strings.Fields(strings.Trim(v.Trace[0], "[]")) {
				var n int
				fmt.Sscan(f, &n)
				prefix = append(prefix, n)
			}
			refs := serialRefs(t, sc.body, sc.n, sc.counts)
			ref := sc.body(t, sequential)
			_, out, dl := schedx.RunOnce(t, schedx.Config{Body: sc.body}, prefix)
			if dl || !refs[out] {
				vv := vk.Violationf(v.Fingerprint, "replayed schedule: outcome %q, serial reference %q", out, ref)
				vv.Scenario, vv.Trace = v.Scenario, v.Trace
				r.Report(vv)
			} else {
				vk.NoRepro()
			}
		}
		r.Finish()
	}
	foldRace(r)
	shard, shards, child := r.Sharded(12)
	if !child && shards > 1 {
		finishC09(r, bound, len(scs))
	}
	totalExec, distinct := 0, 0
	var subs []any
	exhaustive := true
	type item struct {
		name    string
		body    schedx.Body
		threads any
		n       int
		counts  []int
	}
	var items []item
	for _, sc := range dscenarios(quick) {
		items = append(items, item{sc.name, dbody(sc), sc.threads, len(sc.threads), nil})
	}
	for _, sc := range scs {
		items = append(items, item{sc.name, body(sc), sc.threads, len(sc.threads), opCounts(sc.threads)})
	}
	for i, sc := range items {
		if o := os.Getenv("C09_ONLY"); o != "" && !strings.HasPrefix(sc.name, o) {
			continue
		}
		ref := sc.body(t, sequential)
		refs := serialRefs(t, sc.body, sc.n, sc.counts)
		if os.Getenv("C09_DEBUG") != "" {
			fmt.Fprintf(os.Stderr, "REF %s: %s\n", sc.name, ref)
			s0, _, _ := schedx.RunOnce(t, schedx.Config{Body: sc.body}, nil)
			fmt.Fprintf(os.Stderr, "TRACE %v\n", s0.Trace)
		}
		// D6 and D7 are made of conflicting writes: exactly one of them is refused in every serial order
		conflicting := strings.HasPrefix(sc.name, "D6") || strings.HasPrefix(sc.name, "D7")
		if !conflicting && (strings.Contains(ref, "error") || strings.Contains(ref, "panic")) {
			r.HarnessError("scenario %s: sequential reference run is not clean: %s", sc.name, ref)
			continue
		}
		inflightSlot, inflightName = shard, sc.name
		cfg := schedx.Config{Name: sc.name, Body: sc.body, Preemptions: bound, Deadline: time.Now().Add(r.Left() / time.Duration(len(items)-i)),
			OnExec: vk.Beat, OnRun: func(p []int) { vk.Inflight(inflightSlot, inflightName, []string{fmt.Sprint(p)}) }, Shard: shard, Shards: shards,
			Check: func(out string, dl bool, choices []int) error {
				if dl {
					return &viol{vk.Violationf("deadlock:"+sc.name[:2], "deadlock under schedule %v: %s", choices, out), choices}
				}
				if !refs[out] {
					kind := "not-serialisable"
					if strings.Contains(out, "panic") {
						kind = "panic"
					} else if !strings.Contains(out, `errs=["" ""`) && !strings.HasPrefix(out, `errs=[""`) {
						kind = "operation-failed"
					}
					return &viol{vk.Violationf(kind+":"+sc.name[:2], "schedule %v: outcome\n   %s\n differs from the serial result\n   %s", choices, out, ref), choices}
				}
				return nil
			}}
		st, err := schedx.Explore(t, cfg)
		totalExec += st.Executions
		distinct += st.Distinct
		exhaustive = exhaustive && st.Exhaustive
		subs = append(subs, st)
		if err != nil {
			if vv, ok := err.(*viol); ok {
				vv.v.Scenario, vv.v.Trace = sc.name, []string{fmt.Sprint(vv.choices)}
				r.Report(vv.v)
			} else {
				r.HarnessError("%v", err)
			}
		}
		r.Sample(map[string]any{"scenario": sc.name, "threads": sc.threads, "executions": st.Executions, "max_steps": st.MaxSteps})
	}
	r.Set("evaluations", totalExec)
	r.Set("distinct_nontrivial", max(distinct, len(scs)))
	r.Set("schedules", totalExec)
	r.Set("explorations", subs)
	r.Set("exhaustive", exhaustive)
	finishC09(r, bound, len(items))
}

func finishC09(r *vk.Run, bound, nsc int) {
	r.Set("preemption_bound", bound)
	if d, _ := r.Get("distinct_nontrivial").(int); d < nsc {
		r.Set("distinct_nontrivial", nsc)
	}
	r.Set("rule", "per scenario: stateless DFS over schedules of the harness threads and the goroutines cesium spawns, scheduling points at every mutex/rwmutex/atomic/waitgroup operation of cesium, x and alamos (import-rewritten to shims), at most N preemptions per schedule; every execution is replayed from its recorded choices and must produce the identical trace and outcome; outcome = per-thread errors + full read of every channel in memory and after close+reopen, compared with the serial run of the same operations; distinct_nontrivial = number of distinct outcomes seen (>= number of scenarios)")
	r.Assume("testing/synctest bubble as quiescence detector; go1.26.8 runtime with select/map/rand determinism patches (overlay); GOMAXPROCS=1; goroutines of un-instrumented libraries run eagerly (loses interleavings, never adds infeasible ones); channel operations are not scheduling points in this harness; data races are the separate free-running -race pass")
	r.Finish()
}

// foldRace reads the result of the free-running -race pass (run before this binary by run.sh).
func foldRace(r *vk.Run) { vk.FoldRace(r, "/zverif/") }

type viol struct {
	v       *vk.Violation
	choices []int
}

func (v *viol) Error() string { return v.v.Error() }
