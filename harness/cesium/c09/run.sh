#!/bin/bash
# C09: (1) free-running -race pass of the scenario bodies (real sync, no overlay);
#      (2) schedx exploration (shims + runtime patches), which folds in the result of (1).
HERE="$(cd "$(dirname "$0")/../../.." && pwd)"
. "$HERE/bin/env.sh"
mkdir -p "$HERE/build/bin"
export VERIF_RACE_LOG="$HERE/build/c09-race.log"
rm -f "$VERIF_RACE_LOG"
[ -f "$HERE/build/rt/overlay.json" ] || python3 "$HERE/bin/mkrt.py" >/dev/null
if [ -z "${VERIF_REPLAY:-}" ]; then
  ( cd "$HERE/harness/cesium" && "$HERE/bin/gosum.sh" cesium && CGO_ENABLED=1 $VGO test -c -race -vet=off -tags verif -overlay "$HERE/build/rt/overlay.json" -o "$HERE/build/bin/c09.race.test" ./c09 ) \
    && ( VERIF_CHILD=1 GORACE="halt_on_error=0" timeout 150 "$HERE/build/bin/c09.race.test" -test.run '^TestRace$' -test.timeout 0 > "$VERIF_RACE_LOG" 2>&1; true )
fi
exec "$HERE/bin/schedx-run" cesium c09 "/repo/cesium /repo/x/go /repo/alamos/go"
