package main

import (
	xfs "github.com/synnaxlabs/x/io/fs"
	"verifkit/schedx"
)

// ptFS makes file reads scheduling points: an operation that scans a file (the rebuild of
// a variable-length channel's offset table) can then be preempted in the middle of the
// scan, as it can by the disk in production. Only ReadAt/Read are points - enough to open
// the window without multiplying the schedules of every write.
type ptFS struct{ xfs.FS }

func (f ptFS) Open(name string, flag int) (xfs.File, error) {
	x, err := f.FS.Open(name, flag)
	if err != nil {
		return nil, err
	}
	return ptFile{x}, nil
}

func (f ptFS) Sub(name string) (xfs.FS, error) {
	s, err := f.FS.Sub(name)
	if err != nil {
		return nil, err
	}
	return ptFS{s}, nil
}

type ptFile struct{ xfs.File }

func (f ptFile) ReadAt(p []byte, off int64) (int, error) {
	schedx.Point("readat")
	return f.File.ReadAt(p, off)
}
