// C10 — iterator steps return exactly the samples inside the reported view.
//
// Stored layouts are produced through the public cesium.DB (write scripts, deletes, file
// rollover); the channel directories are then opened with cesium/internal/unary, whose
// iterator reports View(). Explicit-state BFS over command sequences
// SeekFirst/SeekLast/SeekLE/SeekGE/Next(span)/Prev(span)/Next(auto)/Prev(auto)/SetBounds;
// after every step Value() must equal the stored samples inside View(), consecutive
// same-direction views must be adjacent, and (separately) every full traversal must visit
// every sample in bounds exactly once.
package main

import (
	"fmt"
	"os"
	"strings"
	"sync"
	"time"

	"github.com/synnaxlabs/cesium"
	"github.com/synnaxlabs/cesium/internal/channel"
	"github.com/synnaxlabs/cesium/internal/unary"
	"github.com/synnaxlabs/cesium/zverif/cz"
	"github.com/synnaxlabs/x/encoding/json"
	"github.com/synnaxlabs/x/errors"
	"github.com/synnaxlabs/x/telem"
	"verifkit/seqx"
	"verifkit/vk"
)

type layout struct {
	name  string
	cfg   cz.Config
	setup []string
}

// stored is a layout opened at unary level (read-only from here on).
type stored struct {
	layout
	world *cz.World
	mu    sync.Mutex
	dbs   map[cesium.ChannelKey]*unary.DB
}

// openDBs opens a fresh set of unary databases over the stored (read-only) files. A step that
// panics inside the iterator (a listed finding for mixed auto-span usage) never returns the file
// reader it had acquired; the databases are shared by every instance of a layout, so a few
// hundred such panics would use up the descriptor pool and later reads would wait for ever. After
// a recovered panic the instances to come use a fresh set; the old one stays open for the
// iterators that still refer to it.
func (st *stored) openDBs() error {
	defs := map[cesium.ChannelKey]cesium.Channel{}
	for _, d := range cz.ChannelDefs() {
		defs[d.Key] = d
	}
	dbs := map[cesium.ChannelKey]*unary.DB{}
	for _, k := range st.cfg.Channels {
		sub, err := st.world.FS.Sub(fmt.Sprint(k))
		if err != nil {
			return err
		}
		d := defs[k]
		ch := channel.Channel{Key: k, Name: d.Name, DataType: d.DataType, IsIndex: d.IsIndex, Index: d.Index}
		if d.IsIndex {
			ch.Index = k
		}
		db, err := unary.Open(cz.Ctx, unary.Config{FS: sub, MetaCodec: json.Codec, Channel: ch, FileSize: st.cfg.FileCap})
		if err != nil {
			return fmt.Errorf("unary.Open %d: %w", k, err)
		}
		dbs[k] = db
	}
	for _, k := range st.cfg.Channels {
		if k != cz.T {
			dbs[k].SetIndex(dbs[cz.T].Index())
		}
	}
	st.mu.Lock()
	st.dbs = dbs
	st.mu.Unlock()
	return nil
}

func (st *stored) db(k cesium.ChannelKey) *unary.DB {
	st.mu.Lock()
	defer st.mu.Unlock()
	return st.dbs[k]
}

func build(l layout) (*stored, error) {
	w, err := cz.New(l.cfg)
	if err != nil {
		return nil, err
	}
	for _, op := range l.setup {
		var o string
		if strings.HasPrefix(op, "del ") {
			o, err = w.ApplyDel(op)
		} else {
			o, err = w.Apply(op)
		}
		if err != nil || w.Poisoned != "" || strings.HasPrefix(o, "refused") {
			return nil, fmt.Errorf("layout %s: setup op %q: %v %v %s", l.name, op, o, err, w.Poisoned)
		}
	}
	if err := w.DB.Close(); err != nil {
		return nil, err
	}
	w.DB = nil
	st := &stored{layout: l, world: w}
	if err := st.openDBs(); err != nil {
		return nil, err
	}
	return st, nil
}

var spans = []telem.TimeSpan{1, telem.Second - 1, telem.Second, 3*telem.Second + 1, telem.TimeSpanMax}

type scenario struct {
	name   string
	st     *stored
	key    cesium.ChannelKey
	bounds telem.TimeRange
	alt    telem.TimeRange // alternate bounds for SetBounds
	chunk  int64
	depth  int
}

type itSys struct {
	sc       scenario
	it       *unary.Iterator
	bounds   telem.TimeRange
	lastCmd  string
	lastView telem.TimeRange
	seeked   bool
	lastSeek string
	steps    []string // step kinds since the last seek
}

func (sc scenario) open() (*itSys, error) {
	it, err := sc.st.db(sc.key).OpenIterator(unary.IteratorConfig{Bounds: sc.bounds, AutoChunkSize: sc.chunk})
	if err != nil {
		return nil, err
	}
	return &itSys{sc: sc, it: it, bounds: sc.bounds}, nil
}

func (s *itSys) Close() { _ = s.it.Close() }

func (s *itSys) points() []telem.TimeStamp { return cz.Bounds(s.sc.st.world.Grid) }

func (s *itSys) Ops() []string {
	ops := []string{"sf", "sl"}
	if s.seeked && s.it.Error() == nil {
		for k := range spans {
			ops = append(ops, fmt.Sprintf("n %d", k))
		}
		for k := range spans {
			ops = append(ops, fmt.Sprintf("p %d", k))
		}
		ops = append(ops, "na", "pa")
	}
	for i := range s.points() {
		ops = append(ops, fmt.Sprintf("sle %d", i), fmt.Sprintf("sge %d", i))
	}
	ops = append(ops, "sb")
	return ops
}

// values returns the samples of the current step. A step that reports !Valid() (no data or an
// error) offers no value to the consumer: whatever Value() still holds from an earlier step is
// not judged.
func (s *itSys) values() []string {
	var got []string
	if !s.it.Valid() {
		return nil
	}
	for _, ser := range s.it.Value().Get(s.sc.key).Series {
		got = append(got, cz.Decode(s.sc.key, ser)...)
	}
	return got
}

func (s *itSys) want(v telem.TimeRange) []string {
	w := s.sc.st.world
	var out []string
	for i, t := range w.Grid {
		if w.Ref[s.sc.key][i] && v.Start <= t && t < v.End && s.bounds.Start <= t && t < s.bounds.End {
			out = append(out, cz.ValueOf(s.sc.key, i, w.Grid))
		}
	}
	return out
}

func eq(a, b []string) bool {
	if len(a) != len(b) {
		return false
	}
	for i := range a {
		if a[i] != b[i] {
			return false
		}
	}
	return true
}

func (s *itSys) vw(v telem.TimeRange) string {
	return fmt.Sprintf("[%d,%d)", int64(v.Start), int64(v.End))
}

func (s *itSys) Apply(op string) (robs string, rerr error) {
	f := strings.Fields(op)
	var n int
	if len(f) > 1 {
		fmt.Sscan(f[1], &n)
	}
	prevView, prevCmd := s.lastView, s.lastCmd
	step := ""
	switch f[0] {
	case "sf", "sl", "sle", "sge", "sb":
		s.lastSeek, s.steps = f[0], nil
	default:
		s.steps = append(s.steps, f[0])
	}
	// An auto-span step is "pure" when it continues a walk of auto steps in one direction that
	// started at SeekFirst (forward) / SeekLast (backward); anything else is mixed usage.
	pure := true
	if f[0] == "na" || f[0] == "pa" {
		for _, k := range s.steps {
			if k != f[0] {
				pure = false
			}
		}
		if (f[0] == "na" && s.lastSeek != "sf") || (f[0] == "pa" && s.lastSeek != "sl") {
			pure = false
		}
		if !pure {
			defer func() {
				if p := recover(); p != nil {
					_ = s.sc.st.openDBs()
					rerr = vk.Violationf("auto-step-mixed-usage", "%s panicked: %v (after %s and steps %v)", op, p, s.lastSeek, s.steps)
				}
			}()
		}
	}
	switch f[0] {
	case "sf":
		s.seeked = s.it.SeekFirst(cz.Ctx)
	case "sl":
		s.seeked = s.it.SeekLast(cz.Ctx)
	case "sle":
		s.seeked = s.it.SeekLE(cz.Ctx, s.points()[n])
	case "sge":
		s.seeked = s.it.SeekGE(cz.Ctx, s.points()[n])
	case "sb":
		if s.bounds == s.sc.bounds {
			s.bounds = s.sc.alt
		} else {
			s.bounds = s.sc.bounds
		}
		s.it.SetBounds(s.bounds)
		s.seeked = false
	case "n":
		s.it.Next(cz.Ctx, spans[n])
		step = "next"
	case "p":
		s.it.Prev(cz.Ctx, spans[n])
		step = "prev"
	case "na":
		s.it.Next(cz.Ctx, unary.AutoSpan)
		step = "next"
	case "pa":
		s.it.Prev(cz.Ctx, unary.AutoSpan)
		step = "prev"
	}
	view := s.it.View()
	s.lastView, s.lastCmd = view, step
	if step == "" {
		return "seek", nil
	}
	got, want := s.values(), s.want(view)
	kind := f[0]
	if !eq(got, want) {
		fp := "step-mismatch:" + kind
		if kind == "na" || kind == "pa" {
			// auto-span steps: the fingerprint names the shape of the disagreement (whether the
			// step started on a sample, and how the returned samples relate to the view), so that
			// a known finding covers one precise misbehaviour only
			fp = "auto-step:" + kind + ":ref-" + s.refKind(prevView, kind) + ":" + relation(got, want)
			if !pure {
				fp = "auto-step-mixed-usage"
			}
		}
		return "", vk.Violationf(fp, "%s: view %s returned %v, stored samples in the view are %v (bounds %s, err=%v)", op, s.vw(view), got, want, s.vw(s.bounds), s.it.Error())
	}
	if view.Start > view.End {
		return "", vk.Violationf("inverted-view:"+kind, "%s: view %s is inverted", op, s.vw(view))
	}
	if prevCmd == step {
		if step == "next" && view.Start != prevView.End {
			return "", vk.Violationf("views-not-adjacent:next", "consecutive Next views %s then %s are not adjacent", s.vw(prevView), s.vw(view))
		}
		if step == "prev" && view.End != prevView.Start {
			return "", vk.Violationf("views-not-adjacent:prev", "consecutive Prev views %s then %s are not adjacent", s.vw(prevView), s.vw(view))
		}
	}
	if len(got) == 0 {
		return "empty", nil
	}
	return fmt.Sprintf("n%d", len(got)), nil
}

// refKind says whether the position an auto step starts from is the timestamp of a stored sample.
func (s *itSys) refKind(prev telem.TimeRange, kind string) string {
	ref := prev.End
	if kind == "pa" {
		ref = prev.Start
	}
	w := s.sc.st.world
	for i, t := range w.Grid {
		if w.Ref[s.sc.key][i] && t == ref {
			return "on-sample"
		}
	}
	return "between-samples"
}

// relation describes how the returned samples differ from the samples in the view.
func relation(got, want []string) string {
	switch {
	case len(got) == len(want)+1 && eq(got[:len(want)], want):
		return "one-extra-after-view"
	case len(got) == len(want)+1 && eq(got[1:], want):
		return "one-extra-before-view"
	case len(want) == len(got)+1 && eq(want[:len(got)], got):
		return "last-in-view-missing"
	case len(want) == len(got)+1 && eq(want[1:], got):
		return "first-in-view-missing"
	case len(got) == 0:
		return "nothing-returned"
	}
	return "other"
}

func (s *itSys) Canon() string {
	itr, iv := s.it.VerifInternal()
	return fmt.Sprintf("view%s bounds%s valid=%v err=%v seeked=%v last=%s int=%s/%v vals=%v", s.vw(s.it.View()), s.vw(s.bounds), s.it.Valid(), s.it.Error() != nil, s.seeked, s.lastCmd, s.vw(itr), iv, s.values())
}

func (s *itSys) Check() error { return nil }

// traversals: for every span / auto chunk, a full forward and backward walk must visit
// every sample in bounds exactly once.
func traversals(r *vk.Run, sc scenario) int {
	n := 0
	type mode struct {
		name string
		span telem.TimeSpan
	}
	modes := []mode{{"span 1s-1ns", telem.Second - 1}, {"span 1s", telem.Second}, {"span 3s+1ns", 3*telem.Second + 1}, {"span max", telem.TimeSpanMax}, {"auto", unary.AutoSpan}}
	for _, m := range modes {
		for _, fwd := range []bool{true, false} {
			n++
			func() {
				defer func() {
					if p := recover(); p != nil {
						v := vk.Violationf("traversal-panic:"+m.name, "traversal (forward=%v) with %s of channel %d panicked: %v", fwd, m.name, sc.key, p)
						v.Scenario, v.Trace = sc.name, []string{"traversal " + map[bool]string{true: "forward", false: "backward"}[fwd] + " " + m.name}
						r.Report(v)
					}
				}()
				s, err := sc.open()
				if err != nil {
					r.HarnessError("open iterator: %v", err)
					return
				}
				var all []string
				var ok bool
				if fwd {
					ok = s.it.SeekFirst(cz.Ctx)
				} else {
					ok = s.it.SeekLast(cz.Ctx)
				}
				steps := 0
				for ok && steps < 200 {
					steps++
					before := s.it.View()
					if fwd {
						s.it.Next(cz.Ctx, m.span)
						all = append(all, s.values()...)
					} else {
						s.it.Prev(cz.Ctx, m.span)
						all = append(append([]string{}, s.values()...), all...)
					}
					v := s.it.View()
					if s.it.Error() != nil || v == before || (fwd && v.End >= s.bounds.End) || (!fwd && v.Start <= s.bounds.Start) {
						break
					}
				}
				want := s.want(s.bounds)
				dir := "forward"
				if !fwd {
					dir = "backward"
				}
				if !eq(all, want) {
					fp := "traversal:" + dir + ":" + m.name
					if m.span == unary.AutoSpan {
						fp += ":" + travRelation(all, want, fwd, s.it.Error())
					}
					v := vk.Violationf(fp, "%s traversal with %s of channel %d within %s visited %v, stored samples in bounds are %v (err=%v, %d steps)", dir, m.name, sc.key, s.vw(s.bounds), all, want, s.it.Error(), steps)
					v.Scenario = sc.name
					v.Trace = []string{"traversal " + dir + " " + m.name}
					if os.Getenv("C10_DEBUG") != "" {
						fmt.Fprintf(os.Stderr, "TRAV %s | %s | %s | got %v want %v err=%v\n", fp, sc.name, dir, all, want, s.it.Error())
					}
					r.Report(v)
				}
				s.Close()
			}()
		}
	}
	return n
}

func travRelation(all, want []string, fwd bool, err error) string {
	seen := map[string]int{}
	for _, x := range all {
		seen[x]++
	}
	// Backward walks whose step lands exactly on the first sample of a domain: the index
	// takes that sample for one of the preceding domain. With a preceding domain the read
	// runs off its end (EOF); without one the step is clamped and the second sample is
	// returned again in place of the first.
	if !fwd && len(all) == 0 && err != nil && strings.HasSuffix(err.Error(), ": EOF") {
		return "eof-stepping-onto-first-sample-of-a-domain"
	}
	if !fwd && err == nil && len(want) >= 2 && len(all) == len(want) && seen[want[0]] == 0 && seen[want[1]] == 2 {
		return "first-sample-replaced-by-repeat-of-second"
	}
	dup, missing, extra := 0, 0, 0
	stored := map[string]bool{}
	for _, x := range want {
		stored[x] = true
		if seen[x] > 1 {
			dup++
		}
		if seen[x] == 0 {
			missing++
		}
	}
	for x := range seen {
		if !stored[x] {
			extra++
		}
	}
	// What is left is described by the set of anomalies the walk shows; a single anomaly keeps
	// its plain name, several are joined.
	var kinds []string
	if dup > 0 {
		kinds = append(kinds, "sample-repeated-at-chunk-boundary")
	}
	if missing > 0 {
		kinds = append(kinds, "samples-missing")
	}
	if extra > 0 {
		kinds = append(kinds, "sample-outside-bounds-returned")
	}
	if err != nil {
		switch {
		case strings.HasSuffix(err.Error(), ": EOF"):
			kinds = append(kinds, "error-eof")
		case strings.Contains(err.Error(), "discontinuous"):
			kinds = append(kinds, "error-discontinuous")
		default:
			kinds = append(kinds, "error-other")
		}
	}
	if len(kinds) == 0 {
		return "order-differs"
	}
	return strings.Join(kinds, "+")
}

func layouts(quick bool) []layout {
	g0 := []cesium.ChannelKey{cz.T, cz.I64, cz.Str}
	always := cesium.AlwaysIndexPersistOnAutoCommit
	one := []string{"open 0 all 0 0", "write 0 2", "write 0 2", "write 0 1", "close 0"}
	gap := []string{"open 0 all 0 0", "write 0 2", "close 0", "open 0 all 3 0", "write 0 2", "close 0"}
	ls := []layout{
		{"L1 one domain", cz.Config{GridN: 5, AutoCommit: true, Channels: g0}, one},
		{"L2 gapped domains", cz.Config{GridN: 5, AutoCommit: true, Channels: g0}, gap},
		{"L3 contiguous rolled-over domains", cz.Config{GridN: 5, FileCap: 20, AutoCommit: true, Channels: g0, Persist: always}, one},
		{"L4 one domain with a deletion cut", cz.Config{GridN: 5, AutoCommit: true, Channels: g0}, append(append([]string{}, one...), "del dall 4 7")},
	}
	if !quick {
		ls = append(ls,
			layout{"L5 tiny files (every commit rolls)", cz.Config{GridN: 6, FileCap: 1, AutoCommit: true, Channels: g0, Persist: always}, []string{"open 0 all 0 0", "write 0 2", "write 0 2", "write 0 2", "close 0"}},
			layout{"L6 three gapped domains + cut", cz.Config{GridN: 8, AutoCommit: true, Channels: g0}, []string{"open 0 all 0 0", "write 0 2", "close 0", "open 0 all 3 0", "write 0 2", "close 0", "open 0 all 6 0", "write 0 2", "close 0", "del dall 1 3"}},
		)
	}
	return ls
}

func main() {
	r := vk.New("C10", "model_checking")
	quick := r.Quick()
	var scs []scenario
	for _, l := range layouts(quick) {
		if o := os.Getenv("C10_ONLY"); o != "" && !strings.HasPrefix(l.name, o) {
			continue
		}
		st, err := build(l)
		if err != nil {
			r.HarnessError("%v", err)
			r.Finish()
		}
		g := st.world.Grid
		full := telem.TimeRangeMax
		inner := telem.TimeRange{Start: g[0] + 1, End: g[len(g)-1]}
		mid := telem.TimeRange{Start: g[1], End: g[3] + 1}
		depth := 5
		if !quick {
			depth = 7
		}
		keys := []cesium.ChannelKey{cz.I64, cz.T, cz.Str}
		for _, k := range keys {
			for bi, b := range []telem.TimeRange{full, inner} {
				chunks := []int64{2}
				if !quick {
					chunks = []int64{1, 2, 5}
				} else if bi == 1 && k != cz.I64 {
					continue
				}
				for _, c := range chunks {
					alt := mid
					scs = append(scs, scenario{fmt.Sprintf("%s / channel %d / bounds %d / chunk %d", l.name, k, bi, c), st, k, b, alt, c, depth})
				}
			}
		}
	}
	mk := func(sc scenario) seqx.Config {
		return seqx.Config{Name: sc.name, MaxDepth: sc.depth, Seed: r.Seed, New: func() (seqx.Sys, error) { return sc.open() }}
	}
	if r.Replay != "" {
		v, err := vk.LoadReplay(r.Replay)
		if err != nil {
			fmt.Fprintln(os.Stderr, err)
			os.Exit(2)
		}
		for _, sc := range scs {
			if sc.name != v.Scenario {
				continue
			}
			if len(v.Trace) == 1 && strings.HasPrefix(v.Trace[0], "traversal") {
				traversals(r, sc)
			} else if err := seqx.Replay(mk(sc), v.Trace); err != nil {
				var vv *vk.Violation
				if errors.As(err, &vv) {
					vv.Trace, vv.Scenario = v.Trace, v.Scenario
					r.Report(vv)
				} else {
					r.HarnessError("replay: %v", err)
				}
			} else {
				vk.NoRepro()
			}
		}
		r.Finish()
	}
	trav := 0
	for i, sc := range scs {
		trav += traversals(r, sc)
		cfg := mk(sc)
		cfg.Deadline = time.Now().Add(r.Left() / time.Duration(len(scs)-i))
		st := seqx.Explore(r, cfg)
		st.Samples = st.Samples[:min(len(st.Samples), 1)]
		seqx.Merge(r, st)
	}
	r.Set("full_traversals", trav)
	r.Set("rule", "per stored layout (built through the public cesium API: single, gapped, rolled-over, deletion cuts) x channel (i64, index, variable-length) x bounds x auto chunk size: BFS over iterator command sequences {SeekFirst, SeekLast, SeekLE/SeekGE(t in boundary set), Next/Prev(span in 1ns, 1s-1ns, 1s, 3s+1ns, max), Next/Prev(auto), SetBounds}; dedup on (view, bounds, valid, error, internal domain position, returned values, last direction); after every step Value()==stored samples in View(), Valid()==non-empty and no error, consecutive same-direction views adjacent; plus full forward/backward traversals per span")
	r.Assume("in-memory xfs.MemFS; go1.26.8 toolchain; the unary iterator is driven directly because only it reports View(); 1ns-span full traversals are not run (billions of steps) - 1ns steps are covered inside the BFS")
	r.Finish()
}
