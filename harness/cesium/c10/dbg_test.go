package main

import (
	"fmt"
	"testing"

	"github.com/synnaxlabs/cesium/internal/unary"
	"github.com/synnaxlabs/cesium/zverif/cz"
	"github.com/synnaxlabs/x/telem"
)

func TestDbg(t *testing.T) {
	ls := layouts(true)
	for _, c := range []struct {
		l     int
		b     telem.TimeRange
		span  telem.TimeSpan
		chunk int64
	}{{0, telem.TimeRangeMax, telem.Second, 2}, {1, telem.TimeRange{Start: cz.Grid(5)[0] + 1, End: cz.Grid(5)[4]}, telem.Second - 1, 2}, {0, telem.TimeRange{Start: cz.Grid(5)[0] + 1, End: cz.Grid(5)[4]}, unary.AutoSpan, 2}} {
		st, err := build(ls[c.l])
		if err != nil {
			t.Fatal(err)
		}
		sc := scenario{"x", st, cz.I64, c.b, c.b, c.chunk, 3}
		s, _ := sc.open()
		fmt.Println("== layout", ls[c.l].name, "bounds", s.vw(c.b), "span", c.span)
		ok := s.it.SeekFirst(cz.Ctx)
		fmt.Println("sf", ok, s.vw(s.it.View()))
		for i := 0; i < 8; i++ {
			ok = s.it.Next(cz.Ctx, c.span)
			itr, iv := s.it.VerifInternal()
			fmt.Println("next", ok, s.vw(s.it.View()), s.values(), "want", s.want(s.it.View()), "err", s.it.Error(), "internal", s.vw(itr), iv)
		}
	}
}
