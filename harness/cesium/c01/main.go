// C01 — cesium reads return exactly the committed samples, in time order.
//
// Explicit-state BFS over write scripts on the public cesium.DB (in-memory FS): sessions
// with index+data, index-only and data-only channel sets, chunkings, commit points,
// auto-commit on/off, out-of-order session placement, two index groups, file-size caps
// forcing rollover, reopen. In every distinct state every half-open read [a,b) over the
// boundary set {0, t-1ns, t, t+1ns, max} is issued for every channel and compared with a
// timestamp->value reference.
package main

import (
	"fmt"
	"os"
	"time"

	"github.com/synnaxlabs/cesium"
	"github.com/synnaxlabs/cesium/zverif/cz"
	"github.com/synnaxlabs/x/errors"
	"github.com/synnaxlabs/x/telem"
	"verifkit/seqx"
	"verifkit/vk"
)

type scenario struct {
	name     string
	cfg      cz.Config
	groups   int
	maxChunk int
	depth    int
}

type sys struct {
	w  *cz.World
	sc scenario
}

func (s *sys) Ops() []string { return s.w.Ops(s.sc.maxChunk, s.sc.groups) }
func (s *sys) Apply(op string) (string, error) {
	return s.w.Apply(op)
}
func (s *sys) Canon() string { return s.w.ModelCanon() + " real:" + s.w.RealDigest() }
func (s *sys) Check() error  { return s.w.Sweep("sweep") }
func (s *sys) Close()        { s.w.Close() }

func scenarios(quick bool) []scenario {
	g0 := []cesium.ChannelKey{cz.T, cz.I64, cz.Str}
	g0u8 := []cesium.ChannelKey{cz.T, cz.U8, cz.I64}
	two := []cesium.ChannelKey{cz.T, cz.I64, cz.T2, cz.I64b}
	always := cesium.AlwaysIndexPersistOnAutoCommit
	var out []scenario
	add := func(q bool, name string, cfg cz.Config, groups, chunk, depth int) {
		if q == quick {
			out = append(out, scenario{name, cfg, groups, chunk, depth})
		}
	}
	add(true, "q1 T+i64+str, autocommit, default files", cz.Config{GridN: 4, AutoCommit: true, Channels: g0}, 1, 2, 7)
	add(true, "q2 T+i64+str, explicit commit, tiny files (every commit rolls)", cz.Config{GridN: 4, FileCap: 1, Channels: g0, Persist: always}, 1, 2, 7)
	add(true, "q3 T+u8+i64, autocommit, 10-byte files (channels roll at different rhythms)", cz.Config{GridN: 5, FileCap: 10, AutoCommit: true, Channels: g0u8, Persist: always}, 1, 2, 7)
	add(true, "q5 T+i64, autocommit, lazy index persistence, 10-byte files (rollover + persist-at-close)", cz.Config{GridN: 4, FileCap: 10, AutoCommit: true, Channels: []cesium.ChannelKey{cz.T, cz.I64}}, 1, 2, 6)
	add(true, "q4 two index groups, autocommit, 20-byte files", cz.Config{GridN: 4, FileCap: 20, AutoCommit: true, Channels: two}, 2, 2, 4)
	add(false, "t1 T+i64+str, autocommit, default files", cz.Config{GridN: 6, AutoCommit: true, Channels: g0}, 1, 3, 8)
	add(false, "t2 T+i64+str, explicit commit, tiny files", cz.Config{GridN: 6, FileCap: 1, Channels: g0, Persist: always}, 1, 3, 8)
	add(false, "t3 T+u8+i64, autocommit, 10-byte files", cz.Config{GridN: 6, FileCap: 10, AutoCommit: true, Channels: g0u8, Persist: always}, 1, 3, 8)
	add(false, "t4 two index groups, explicit commit, 20-byte files", cz.Config{GridN: 5, FileCap: 20, Channels: two}, 2, 2, 7)
	add(false, "t5 T+i64+str+u8, autocommit, 20-byte files", cz.Config{GridN: 6, FileCap: 20, AutoCommit: true, Channels: []cesium.ChannelKey{cz.T, cz.I64, cz.Str, cz.U8}}, 1, 3, 7)
	return out
}

func main() {
	r := vk.New("C01", "model_checking")
	mk := func(sc scenario) seqx.Config {
		return seqx.Config{Name: sc.name, MaxDepth: sc.depth, Seed: r.Seed,
			New: func() (seqx.Sys, error) {
				w, err := cz.New(sc.cfg)
				if err != nil {
					return nil, err
				}
				return &sys{w, sc}, nil
			}}
	}
	if r.Replay != "" {
		v, err := vk.LoadReplay(r.Replay)
		if err != nil {
			fmt.Fprintln(os.Stderr, err)
			os.Exit(2)
		}
		for _, sc := range append(scenarios(true), scenarios(false)...) {
			if sc.name == v.Scenario {
				if err := seqx.Replay(mk(sc), v.Trace); err != nil {
					var vv *vk.Violation
					if errors.As(err, &vv) {
						vv.Trace, vv.Scenario = v.Trace, v.Scenario
						r.Report(vv)
					} else {
						r.HarnessError("replay: %v", err)
					}
				} else {
					vk.NoRepro()
				}
			}
		}
		r.Finish()
	}
	scs := scenarios(r.Quick())
	for i, sc := range scs {
		cfg := mk(sc)
		cfg.Deadline = time.Now().Add(r.Left() / time.Duration(len(scs)-i))
		seqx.Merge(r, seqx.Explore(r, cfg))
	}
	nb := len(cz.Bounds(cz.Grid(4)))
	r.Set("read_ranges_per_state_grid4", nb*(nb-1)/2)
	r.Set("rule", "BFS over write scripts {open(group, all|idx|data, start grid point, start offset 0/-1ns) / write(k next samples) / commit / close / reopen} on the public cesium.DB, per configuration (auto-commit, index persistence, file-size cap forcing rollover, data types incl. variable-length and 1-byte); dedup on (reference map, committed domain ranges, session state, full real read + data file sizes); every new state: every half-open read over {0,t-1,t,t+1,max} for every channel == committed samples in range, in order, once")
	r.Assume("in-memory xfs.MemFS; go1.26.8 toolchain; script steps the model considers legal but the engine refuses end that path (the property speaks of successful writes and commits); wall-clock driven index persistence covered as its two extremes only; series time ranges/alignments are recorded in the canonical state but not judged")
	_ = telem.TimeStampMax
	r.Finish()
}
