#!/bin/bash
HERE="$(cd "$(dirname "$0")/../../.." && pwd)"
. "$HERE/bin/env.sh"
exec "$HERE/bin/schedx-run" cesium c20 "/repo/cesium /repo/x/go /repo/alamos/go"
