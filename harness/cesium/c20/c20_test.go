// C20 — streamers see an ordered, filtered, duplicate-free view of writes.
//
// Writers (one with authority on all its channels, one partly unauthorised), streamers that
// subscribe / re-subscribe / disconnect and, in the thorough tier, DB.Close run as harness
// threads under the schedx controlled scheduler: every interleaving of their operations
// (scheduling points between harness operations and at every mutex/atomic/waitgroup
// operation of cesium + x) with a bounded number of preemptions, for three select-polling
// rotations. Each streamer is drained by an always-ready consumer. Oracle per streamer: no
// frame twice, per-writer order preserved, only subscribed keys (monotone across a
// re-subscription), no series of a channel the writer was unauthorised on, every frame
// written entirely inside the streamer's connected window received; and no deadlock.
package main

import (
	"context"
	"fmt"
	"os"
	"sort"
	"strings"
	"sync"
	"testing"
	"time"

	"github.com/synnaxlabs/cesium"
	"github.com/synnaxlabs/x/confluence"
	xcontrol "github.com/synnaxlabs/x/control"
	xfs "github.com/synnaxlabs/x/io/fs"
	"github.com/synnaxlabs/x/signal"
	"github.com/synnaxlabs/x/telem"
	"verifkit/schedx"
	"verifkit/vk"
)

var ctx = context.Background()

const (
	c1 cesium.ChannelKey = 1
	c2 cesium.ChannelKey = 2
	c3 cesium.ChannelKey = 3
)

type event struct {
	kind   string // "w1.1" (writer 1 frame 1), "r1.open", "r1.resub", "r1.close", ...
	start  int
	end    int
	auth   bool
	writer int
	seq    int
}

type world struct {
	mu     sync.Mutex
	clock  int
	events []*event
}

func (w *world) begin(kind string) *event {
	w.mu.Lock()
	defer w.mu.Unlock()
	w.clock++
	e := &event{kind: kind, start: w.clock}
	w.events = append(w.events, e)
	return e
}

func (w *world) finish(e *event) {
	w.mu.Lock()
	w.clock++
	e.end = w.clock
	w.mu.Unlock()
}

type recv struct {
	at     int
	writer int
	seq    int
	keys   []cesium.ChannelKey
	frame  cesium.Frame
}

func (r *recv) decode() {
	r.keys = r.frame.KeysSlice()
	if r.frame.Len() > 0 {
		v := telem.ValueAt[int64](r.frame.SeriesAt(0), 0)
		r.writer, r.seq = int(v/100), int(v%100)
	}
	for i := range r.keys {
		if telem.ValueAt[int64](r.frame.SeriesAt(i), 0) != val(r.writer, r.seq) {
			r.writer = -1 // mixed frame
		}
	}
}

type reader struct {
	name   string
	mu     sync.Mutex
	log    []recv
	in     confluence.Inlet[cesium.StreamerRequest]
	out    confluence.Outlet[cesium.StreamerResponse]
	cancel  context.CancelFunc
	done    chan struct{}
	release chan struct{} // closed when a stalled consumer may start draining
}

type scenario struct {
	name    string
	writers int
	readers int
	closer  bool
	wide    int // >0: one writer writing frames with this many channels; readers subscribe to one channel each
	hold    bool // streamers stay connected until every writer has finished (so that the cheapest schedules already overlap)
	stall   bool // the last streamer's consumer never takes a frame after the open acknowledgement
	empty   bool // streamer r1 re-subscribes to c2 and then to no channel at all
}

func val(writer, seq int) int64 { return int64(writer*100 + seq) }

func body(sc scenario, result *string) schedx.Body {
	return func(t *testing.T, run func(threads ...func()) bool) string {
		db, err := cesium.Open(ctx, "", cesium.WithFS(xfs.NewMem()))
		if err != nil {
			return "setup: " + err.Error()
		}
		if err := db.CreateChannel(ctx,
			cesium.Channel{Key: c1, Name: "c1", Virtual: true, DataType: telem.Int64T},
			cesium.Channel{Key: c2, Name: "c2", Virtual: true, DataType: telem.Int64T},
			cesium.Channel{Key: c3, Name: "c3", Virtual: true, DataType: telem.Int64T},
		); err != nil {
			_ = db.Close()
			return "setup: " + err.Error()
		}
		for k := 0; k < sc.wide; k++ {
			if err := db.CreateChannel(ctx, cesium.Channel{Key: cesium.ChannelKey(10 + k), Name: fmt.Sprintf("w%d", k), Virtual: true, DataType: telem.Int64T}); err != nil {
				_ = db.Close()
				return "setup: " + err.Error()
			}
		}
		w := &world{}
		errs := map[string]string{}
		var emu sync.Mutex
		fail := func(who string, err error) {
			emu.Lock()
			errs[who] = err.Error()
			emu.Unlock()
		}
		readers := make([]*reader, sc.readers)
		var threads, wthreads []func()
		writersDone := make(chan struct{})
		emptied := make(chan struct{}) // closed once r1's re-subscription to nothing has been applied
		var wleft = sc.writers
		var wmu sync.Mutex
		// writers
		for wi := 1; wi <= sc.writers; wi++ {
			wthreads = append(wthreads, func() {
				defer func() {
					wmu.Lock()
					wleft--
					if wleft == 0 {
						close(writersDone)
					}
					wmu.Unlock()
				}()
				keys := []cesium.ChannelKey{c1, c2}
				auths := []xcontrol.Authority{255, 255}
				frames := 3
				if wi == 2 { // lower authority on c1 and c2 (held by writer 1), alone on c3
					keys = []cesium.ChannelKey{c1, c2, c3}
					auths = []xcontrol.Authority{1, 1, 255}
					frames = 2
				}
				if sc.wide > 0 { // one writer, a frame with many channels
					keys, auths = nil, []xcontrol.Authority{255}
					for k := 0; k < sc.wide; k++ {
						keys = append(keys, cesium.ChannelKey(10+k))
					}
					frames = 2
				}
				schedx.Point("op")
				eo := w.begin(fmt.Sprintf("w%d.open", wi))
				cw, err := db.OpenWriter(ctx, cesium.WriterConfig{Start: telem.TimeStamp(1000 * wi), Channels: keys, Authorities: auths,
					ControlSubject: xcontrol.Subject{Key: fmt.Sprintf("w%d", wi)}, Sync: new(true), Mode: cesium.WriterModeStreamOnly})
				w.finish(eo)
				if err != nil {
					fail(fmt.Sprintf("w%d.open", wi), err)
					return
				}
				if sc.empty {
					<-emptied
					schedx.Resumed()
				}
				for s := 1; s <= frames; s++ {
					schedx.Point("op")
					e := w.begin(fmt.Sprintf("w%d.%d", wi, s))
					e.writer, e.seq = wi, s
					series := make([]telem.Series, len(keys))
					for k := range keys {
						series[k] = telem.NewSeriesV[int64](val(wi, s))
					}
					ok, err := cw.Write(telem.MultiFrame(keys, series))
					w.finish(e)
					e.auth = ok
					if err != nil {
						fail(e.kind, err)
						break
					}
				}
				schedx.Point("op")
				ec := w.begin(fmt.Sprintf("w%d.close", wi))
				err = cw.Close()
				w.finish(ec)
				if err != nil {
					fail(fmt.Sprintf("w%d.close", wi), err)
				}
			})
		}
		// streamer control threads
		for ri := 0; ri < sc.readers; ri++ {
			rd := &reader{name: fmt.Sprintf("r%d", ri+1), done: make(chan struct{}), release: make(chan struct{})}
			readers[ri] = rd
			threads = append(threads, func() {
				sub := []cesium.ChannelKey{c1, c2, c3}
				if ri == 0 {
					sub = []cesium.ChannelKey{c1}
				}
				if sc.wide > 0 {
					sub = []cesium.ChannelKey{cesium.ChannelKey(10 + 5 + 70*ri)}
				}
				schedx.Point("op")
				e := w.begin(rd.name + ".open")
				st, err := db.NewStreamer(ctx, cesium.StreamerConfig{Channels: sub, SendOpenAck: true})
				if err != nil {
					w.finish(e)
					fail(e.kind, err)
					close(rd.done)
					return
				}
				sCtx, cancel := signal.Isolated()
				rd.cancel = cancel
				stalled := sc.stall && ri == sc.readers-1
				if stalled {
					rd.in, rd.out = confluence.Attach(st, 1)
				} else {
					rd.in, rd.out = confluence.Attach(st, 10)
				}
				st.Flow(sCtx, confluence.CloseOutputInletsOnExit())
				<-rd.out.Outlet() // open ack
				w.finish(e)
				if stalled {
					// takes nothing until it disconnects; then drains so that the streamer can exit
					go func() {
						defer close(rd.done)
						<-rd.release
						for range rd.out.Outlet() {
						}
					}()
				} else {
					go consume(w, rd)
				}
				if ri == 0 && sc.wide == 0 {
					schedx.Point("op")
					e := w.begin(rd.name + ".resub")
					rd.in.Inlet() <- cesium.StreamerRequest{Channels: []cesium.ChannelKey{c2}}
					w.finish(e)
					if sc.empty {
						schedx.Point("op")
						e := w.begin(rd.name + ".resub-empty")
						rd.in.Inlet() <- cesium.StreamerRequest{Channels: []cesium.ChannelKey{}}
						// the request is applied by the streamer's own goroutine: one second of fake
						// time lets it run to quiescence before the writer is allowed to write
						time.Sleep(time.Second)
						schedx.Resumed()
						w.finish(e)
						close(emptied)
					}
				}
				if sc.hold {
					<-writersDone
					// delivery is asynchronous: give the relay one second of (fake) time, in which
					// every runnable goroutine runs to quiescence, before disconnecting
					time.Sleep(time.Second)
					schedx.Resumed()
				}
				schedx.Point("op")
				e = w.begin(rd.name + ".close")
				rd.in.Close()
				if stalled {
					close(rd.release)
				}
				<-rd.done
				w.finish(e)
				cancel()
			})
		}
		threads = append(threads, wthreads...) // streamer threads first, then writers
		if sc.closer {
			threads = append(threads, func() {
				schedx.Point("op")
				schedx.Point("op")
				e := w.begin("db.close")
				_ = db.Close()
				w.finish(e)
			})
		}
		dl := run(threads...)
		if dl {
			*result = "DEADLOCK"
			return "DEADLOCK " + fmt.Sprint(errs)
		}
		if !sc.closer {
			if err := db.Close(); err != nil {
				errs["db.close"] = err.Error()
			}
		}
		// judge
		for _, rd := range readers {
			for i := range rd.log {
				rd.log[i].decode()
			}
		}
		*result = judge(sc, w, readers, errs)
		// outcome string for the replay comparison: the event order and what every reader got
		var b strings.Builder
		// (logical clock stamps are not part of the outcome: the relative order of a consumer's
		// receipt and a writer's return is decided by un-instrumented goroutine wake-ups)
		for _, e := range w.events {
			fmt.Fprintf(&b, "%s[%v] ", e.kind, e.auth)
		}
		for _, rd := range readers {
			fmt.Fprintf(&b, "| %s:", rd.name)
			for _, r := range rd.log {
				fmt.Fprintf(&b, "w%d.%d%v ", r.writer, r.seq, r.keys)
			}
		}
		return b.String() + " => " + *result
	}
}

// consume is the always-ready consumer of a streamer
func consume(w *world, rd *reader) {
	defer close(rd.done)
	for res := range rd.out.Outlet() {
		w.mu.Lock()
		w.clock++
		at := w.clock
		w.mu.Unlock()
		// the delivered frame is kept and decoded only when the execution is over: a frame
		// must not change under the consumer after it was delivered
		rd.mu.Lock()
		rd.log = append(rd.log, recv{at: at, frame: res.Frame})
		rd.mu.Unlock()
	}
}

func judge(sc scenario, w *world, readers []*reader, errs map[string]string) string {
	if len(errs) > 0 && !sc.closer {
		var ks []string
		for k, v := range errs {
			ks = append(ks, k+": "+v)
		}
		sort.Strings(ks)
		return "operation-failed: " + strings.Join(ks, "; ")
	}
	ev := map[string]*event{}
	for _, e := range w.events {
		ev[e.kind] = e
	}
	for ri, rd := range readers {
		seen := map[string]bool{}
		lastSeq := map[int]int{}
		sawC2 := false
		for _, r := range rd.log {
			id := fmt.Sprintf("w%d.%d", r.writer, r.seq)
			if r.writer < 0 {
				return fmt.Sprintf("mixed-frame: %s received a frame mixing different writes %v", rd.name, r.keys)
			}
			if seen[id] {
				return fmt.Sprintf("duplicate: %s received %s twice", rd.name, id)
			}
			seen[id] = true
			if r.seq < lastSeq[r.writer] {
				return fmt.Sprintf("reordered: %s received %s after frame %d of the same writer", rd.name, id, lastSeq[r.writer])
			}
			lastSeq[r.writer] = r.seq
			for _, k := range r.keys {
				// writer 2 (authority 1 on c1) is unauthorised on c1 exactly while writer 1
				// (authority 255) holds its gate: judged for writes entirely inside that window
				if e, o, c := ev[id], ev["w1.open"], ev["w1.close"]; r.writer == 2 && (k == c1 || k == c2) && e != nil && o != nil && c != nil && e.start > o.end && e.end < c.start {
					return fmt.Sprintf("unauthorized-series-relayed: %s received writer 2's series for channel %d (%s)", rd.name, k, id)
				}
				if sc.wide > 0 && k != cesium.ChannelKey(10+5+70*ri) {
					return fmt.Sprintf("unsubscribed-key: %s (subscribed to channel %d) received key %d in %s", rd.name, 10+5+70*ri, k, id)
				}
				if ri == 0 && sc.wide == 0 {
					if k == c3 || (k == c1 && sawC2) {
						return fmt.Sprintf("unsubscribed-key: %s received key %d in %s (after re-subscription=%v)", rd.name, k, id, sawC2)
					}
					if k == c2 {
						sawC2 = true
					}
				}
			}
			if ri == 0 && sc.empty {
				if e, re := ev[id], ev[rd.name+".resub-empty"]; e != nil && re != nil && e.start > re.end+drainSlack {
					return fmt.Sprintf("unsubscribed-key: %s received %s (keys %v), written after it had re-subscribed to no channel", rd.name, id, r.keys)
				}
			}
			if ri == 0 && sc.wide == 0 && len(r.keys) > 1 {
				return fmt.Sprintf("unsubscribed-key: %s received keys %v in one frame", rd.name, r.keys)
			}
		}
		// completeness: frames written entirely inside the connected window
		open, cl := ev[rd.name+".open"], ev[rd.name+".close"]
		if sc.stall && ri == len(readers)-1 {
			continue // the stalled consumer is owed nothing
		}
		if open == nil || cl == nil || sc.closer || !sc.hold || sc.empty {
			continue // without the drain pause a frame may legitimately still be in flight at disconnect
		}
		for _, e := range w.events {
			if e.writer == 0 || !(e.start > open.end && e.end < cl.start) {
				continue
			}
			// what should arrive: writer 1 -> c1/c2 (always something for either reader); writer 2 -> c3 only (reader 2)
			if e.writer == 2 && ri == 0 {
				continue
			}
			if e.writer == 1 && !e.auth {
				continue
			}
			if !seen[e.kind] {
				return fmt.Sprintf("frame-missed: %s (always ready, connected during [%d,%d]) never received %s written during [%d,%d]", rd.name, open.end, cl.start, e.kind, e.start, e.end)
			}
		}
	}
	return "ok"
}

// drainSlack: a re-subscription request is acknowledged by nothing; frames whose write began
// within this many logical events after the request was handed over may still be filtered with
// the old subscription.
const drainSlack = 0

func sequential(threads ...func()) bool {
	for _, f := range threads {
		f()
	}
	return false
}

type viol struct {
	v       *vk.Violation
	choices []int
}

func (v *viol) Error() string { return v.v.Error() }

var (
	inflightSlot int
	inflightName string
)

func TestCheck(t *testing.T) {
	r := vk.New("C20", "exploration")
	quick := r.Quick()
	scs := []scenario{
		{"Q1 writer 1 || streamer r1 (subscribe c1, re-subscribe c2, close)", 1, 1, false, 0, false, false, false},
		{"Q2 writer 1 || writer 2 (unauthorised on c1, c2) || r1 || r2 (all channels)", 2, 2, false, 0, false, false, false},
		{"Q3 one writer, 140-channel frames || two streamers each subscribed to one channel, connected throughout", 1, 2, false, 140, true, false, false},
		{"Q4 writer 1 || writer 2 || r1 || r2, streamers connected until the writers finish", 2, 2, false, 0, true, false, false},
		{"Q5 writer 1 || writer 2 || r1 (always ready) || r2 whose consumer stalls, connected until the writers finish", 2, 2, false, 0, true, true, false},
		{"Q6 writer 1 || r1 (subscribe c1, re-subscribe c2, re-subscribe to nothing, stay until the writer finished)", 1, 1, false, 0, true, false, true},
	}
	bound := 2
	if !quick {
		bound = 3
		scs = append(scs, scenario{"T3 writer 1 || writer 2 || r1 || r2 || db.Close", 2, 2, true, 0, false, false, false})
	}
	rots := []uint32{0, 1, 2}
	if only := os.Getenv("VERIF_ONLY"); only != "" {
		var keep []scenario
		for _, sc := range scs {
			if strings.HasPrefix(sc.name, only) {
				keep = append(keep, sc)
			}
		}
		scs = keep
	}
	if r.Replay != "" {
		v, err := vk.LoadReplay(r.Replay)
		if err != nil {
			fmt.Fprintln(os.Stderr, err)
			os.Exit(2)
		}
		for _, sc := range append(scs, scenario{"T3 writer 1 || writer 2 || r1 || r2 || db.Close", 2, 2, true, 0, false, false, false}) {
			if !strings.HasPrefix(v.Scenario, sc.name) {
				continue
			}
			var rot uint32
			fmt.Sscanf(v.Scenario[len(sc.name):], " selrot=%d", &rot)
			var prefix []int
			for _, f := range strings.Fields(strings.Trim(v.Trace[0], "[]")) {
				var n int
				fmt.Sscan(f, &n)
				prefix = append(prefix, n)
			}
			var res string
			sd, out, dl := schedx.RunOnce(t, schedx.Config{Body: body(sc, &res), SelRot: rot}, prefix)
			if os.Getenv("VERIF_SCHEDX_DEBUG") != "" {
				fmt.Fprintln(os.Stderr, "TRACE:", sd.Trace)
			}
			if dl || res != "ok" {
				vv := vk.Violationf(v.Fingerprint, "replayed: %s (%s)", res, out)
				vv.Scenario, vv.Trace = v.Scenario, v.Trace
				r.Report(vv)
			} else {
				vk.NoRepro()
			}
			break
		}
		r.Finish()
	}
	shard, shards, child := r.Sharded(12)
	if !child && shards > 1 {
		finish(r, bound, len(scs))
	}
	total, distinct := 0, 0
	exhaustive := true
	var subs []any
	n := len(scs) * len(rots)
	k := 0
	for _, sc := range scs {
		for _, rot := range rots {
			var res string
			name := fmt.Sprintf("%s selrot=%d", sc.name, rot)
			inflightSlot, inflightName = shard, name
			cfg := schedx.Config{Name: name, Body: body(sc, &res), Preemptions: bound, SelRot: rot, Shard: shard, Shards: shards,
				Deadline: time.Now().Add(r.Left() / time.Duration(n-k)), OnExec: vk.Beat, OnRun: func(p []int) { vk.Inflight(inflightSlot, inflightName, []string{fmt.Sprint(p)}) },
				Check: func(out string, dl bool, choices []int) error {
					if dl {
						return &viol{vk.Violationf("deadlock:"+sc.name[:2], "deadlock (an operation never returns) under schedule %v: %s", choices, out), choices}
					}
					if res != "ok" {
						kind := strings.SplitN(res, ":", 2)[0]
						return &viol{vk.Violationf(kind+":"+sc.name[:2], "schedule %v: %s\n   events/receipts: %s", choices, res, out), choices}
					}
					return nil
				}}
			k++
			st, err := schedx.Explore(t, cfg)
			total += st.Executions
			distinct += st.Distinct
			exhaustive = exhaustive && st.Exhaustive
			subs = append(subs, st)
			if err != nil {
				if vv, ok := err.(*viol); ok {
					vv.v.Scenario, vv.v.Trace = name, []string{fmt.Sprint(vv.choices)}
					r.Report(vv.v)
				} else {
					r.HarnessError("%v", err)
				}
			}
		}
		r.Sample(map[string]any{"scenario": sc.name, "writers": sc.writers, "streamers": sc.readers, "db_close_thread": sc.closer})
	}
	r.Set("evaluations", total)
	r.Set("schedules", total)
	r.Set("distinct_nontrivial", distinct)
	r.Set("explorations", subs)
	r.Set("exhaustive", exhaustive)
	finish(r, bound, len(scs))
}

func finish(r *vk.Run, bound, nsc int) {
	r.Set("preemption_bound", bound)
	r.Set("rule", "per scenario x select rotation {0,1,2}: stateless DFS over schedules of the harness threads (writers with 2-3 sync-mode stream writes each, streamer control threads: open+ack, re-subscribe, close; thorough: DB.Close) with scheduling points between harness operations and at every mutex/atomic/waitgroup operation of cesium and x, bounded preemptions, every execution replayed; each streamer drained by an always-ready consumer; distinct_nontrivial = distinct (event order, receipts) outcomes")
	r.Assume("channel operations inside relay/confluence are not scheduling points: interleavings are explored at the granularity of harness operations and lock operations (goroutines blocked on channels run as soon as they are woken); fake time: the 20ms slow-consumer timeout fires only if the scheduler advances the clock; virtual channels; go1.26.8 with runtime determinism patches")
	r.Finish()
}
