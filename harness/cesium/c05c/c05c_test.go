// C05 (concurrent part) — control authority under concurrent open / release /
// set-authority.
//
// The real control.Controller (cesium/internal/control) is driven by 2-3 harness threads
// under the schedx controlled scheduler: every interleaving at the controller's and the
// regions' mutex operations with a bounded number of preemptions. Oracle: the observable
// outcome of the concurrent execution (the transfer every operation reported, then - after
// all threads finished - which live gates are authorised, the controller's leading state,
// whether a low-authority probe opened afterwards is authorised and what transfer it was
// told, and whether the controller is empty after releasing everything) must equal the
// outcome of one of the serial orders of the same operations on a fresh controller
// (linearizability against the implementation run sequentially, which part 1 decides
// against the model); a deadlock is a violation.
package main

import (
	"fmt"
	"os"
	"sort"
	"strings"
	"testing"
	"time"

	"github.com/synnaxlabs/cesium/internal/channel"
	"github.com/synnaxlabs/cesium/internal/control"
	xcontrol "github.com/synnaxlabs/x/control"
	"github.com/synnaxlabs/x/telem"
	"verifkit/schedx"
	"verifkit/vk"
)

type res struct{ k channel.Key }

func (r res) ChannelKey() channel.Key { return r.k }

var rng = telem.TimeRange{Start: 10, End: 20}

func tstate(x *control.State) string {
	if x == nil {
		return "nobody"
	}
	return fmt.Sprintf("%s(%d)", x.Subject.Key, x.Authority)
}

func tr(t control.Transfer) string {
	if !t.Occurred() {
		return "no-transfer"
	}
	return tstate(t.From) + "->" + tstate(t.To)
}

// world is one controller plus the gates the scenario's operations act on
type world struct {
	c     *control.Controller[res]
	gates map[string]*control.Gate[res]
}

func (w *world) open(subj string, auth int) string {
	g, t, err := w.c.OpenGate(control.GateConfig[res]{
		OpenResource: func() (res, error) { return res{1}, nil },
		Subject:      xcontrol.Subject{Key: subj}, TimeRange: rng, Authority: xcontrol.Authority(auth)})
	if err != nil {
		return "open " + subj + " error " + err.Error()
	}
	w.gates[subj] = g
	return fmt.Sprintf("open %s(%d): %s", subj, auth, tr(t))
}

func (w *world) release(subj string) string {
	_, t := w.gates[subj].Release()
	delete(w.gates, subj)
	return fmt.Sprintf("release %s: %s", subj, tr(t))
}

func (w *world) set(subj string, auth int) string {
	t := w.gates[subj].SetAuthority(xcontrol.Authority(auth))
	return fmt.Sprintf("set %s=%d: %s", subj, auth, tr(t))
}

type opSpec struct {
	kind string // open | release | set
	subj string
	auth int
}

func (o opSpec) run(w *world) string {
	switch o.kind {
	case "open":
		return w.open(o.subj, o.auth)
	case "release":
		return w.release(o.subj)
	}
	return w.set(o.subj, o.auth)
}

type scenario struct {
	name    string
	initial []opSpec   // opened sequentially before the threads start
	threads [][]opSpec // one op list per thread
}

var scenarios = []scenario{
	{"K1 last holder releases || another opens", []opSpec{{"open", "s1", 255}},
		[][]opSpec{{{"release", "s1", 0}}, {{"open", "s2", 255}}}},
	{"K2 three concurrent opens with different authorities", nil,
		[][]opSpec{{{"open", "s1", 1}}, {{"open", "s2", 255}}, {{"open", "s3", 1}}}},
	{"K3 holder lowers its authority || a challenger opens", []opSpec{{"open", "s1", 255}},
		[][]opSpec{{{"set", "s1", 0}}, {{"open", "s2", 1}}}},
	{"K4 holder and waiter release || a third opens", []opSpec{{"open", "s1", 255}, {"open", "s2", 1}},
		[][]opSpec{{{"release", "s1", 0}}, {{"release", "s2", 0}}, {{"open", "s3", 0}}}},
	{"K5 open then release || open then raise authority", nil,
		[][]opSpec{{{"open", "s1", 1}, {"release", "s1", 0}}, {{"open", "s2", 0}, {"set", "s2", 255}}}},
}

// after all threads: what can be observed about who is in control
func (w *world) observe() string {
	var out []string
	var subs []string
	for s := range w.gates {
		subs = append(subs, s)
	}
	sort.Strings(subs)
	for _, s := range subs {
		_, err := w.gates[s].Authorize()
		out = append(out, fmt.Sprintf("%s authorized=%v", s, err == nil))
	}
	out = append(out, "leading="+tstate(w.c.LeadingState()))
	// a probe with the lowest authority must never displace anybody
	p := w.open("probe", 0)
	_, err := w.gates["probe"].Authorize()
	out = append(out, p, fmt.Sprintf("probe authorized=%v", err == nil))
	out = append(out, w.release("probe"))
	for _, s := range subs {
		out = append(out, w.release(s))
	}
	out = append(out, "leading-after-all-released="+tstate(w.c.LeadingState()))
	// a fresh open on the emptied controller is an acquisition from nobody
	out = append(out, w.open("last", 1))
	return strings.Join(out, "; ")
}

func newWorld(sc scenario) (*world, string) {
	c, err := control.New[res](control.Config{Concurrency: xcontrol.ConcurrencyExclusive})
	if err != nil {
		return nil, "setup: " + err.Error()
	}
	w := &world{c: c, gates: map[string]*control.Gate[res]{}}
	for _, o := range sc.initial {
		o.run(w)
	}
	return w, ""
}

// serial outcomes: every interleaving of the threads' op lists executed sequentially
func serialOutcomes(sc scenario) map[string]bool {
	out := map[string]bool{}
	idx := make([]int, len(sc.threads))
	var order []int
	var rec func()
	rec = func() {
		done := true
		for t := range sc.threads {
			if idx[t] < len(sc.threads[t]) {
				done = false
				idx[t]++
				order = append(order, t)
				rec()
				order = order[:len(order)-1]
				idx[t]--
			}
		}
		if done {
			w, _ := newWorld(sc)
			pos := make([]int, len(sc.threads))
			res := make([][]string, len(sc.threads))
			for _, t := range order {
				res[t] = append(res[t], sc.threads[t][pos[t]].run(w))
				pos[t]++
			}
			out[outcome(res, w)] = true
		}
	}
	rec()
	return out
}

func outcome(res [][]string, w *world) string {
	var parts []string
	for t, r := range res {
		parts = append(parts, fmt.Sprintf("T%d[%s]", t+1, strings.Join(r, ", ")))
	}
	return strings.Join(parts, " ") + " | " + w.observe()
}

func body(sc scenario) schedx.Body {
	return func(t *testing.T, run func(threads ...func()) bool) string {
		w, e := newWorld(sc)
		if e != "" {
			return e
		}
		res := make([][]string, len(sc.threads))
		var ths []func()
		// gates map is written by open/release of different subjects: guard it
		var mu chanMutex
		mu.init()
		for i := range sc.threads {
			i := i
			ths = append(ths, func() {
				for _, o := range sc.threads[i] {
					schedx.Point("op")
					var r string
					switch o.kind {
					case "open":
						g, tt, err := w.c.OpenGate(control.GateConfig[res0]{
							OpenResource: func() (res0, error) { return res0{1}, nil },
							Subject:      xcontrol.Subject{Key: o.subj}, TimeRange: rng, Authority: xcontrol.Authority(o.auth)})
						if err != nil {
							r = "open " + o.subj + " error " + err.Error()
						} else {
							mu.lock()
							w.gates[o.subj] = g
							mu.unlock()
							r = fmt.Sprintf("open %s(%d): %s", o.subj, o.auth, tr(tt))
						}
					case "release":
						mu.lock()
						g := w.gates[o.subj]
						delete(w.gates, o.subj)
						mu.unlock()
						_, tt := g.Release()
						r = fmt.Sprintf("release %s: %s", o.subj, tr(tt))
					case "set":
						mu.lock()
						g := w.gates[o.subj]
						mu.unlock()
						r = fmt.Sprintf("set %s=%d: %s", o.subj, o.auth, tr(g.SetAuthority(xcontrol.Authority(o.auth))))
					}
					res[i] = append(res[i], r)
				}
			})
		}
		if run(ths...) {
			return "deadlock"
		}
		return outcome(res, w)
	}
}

type res0 = res

// chanMutex is a harness-only lock that is not a scheduling point (a one-slot channel)
type chanMutex struct{ ch chan struct{} }

func (m *chanMutex) init()   { m.ch = make(chan struct{}, 1) }
func (m *chanMutex) lock()   { m.ch <- struct{}{} }
func (m *chanMutex) unlock() { <-m.ch }

type viol struct {
	v       *vk.Violation
	choices []int
}

func (v *viol) Error() string { return v.v.Error() }

var (
	inflightSlot int
	inflightName string
)

func TestCheck(t *testing.T) {
	r := vk.New("C05", "model_checking")
	bound := 2
	if !r.Quick() {
		bound = 4
	}
	if r.Replay != "" {
		v, err := vk.LoadReplay(r.Replay)
		if err != nil {
			fmt.Fprintln(os.Stderr, err)
			os.Exit(2)
		}
		found := false
		for _, sc := range scenarios {
			if sc.name != v.Scenario {
				continue
			}
			found = true
			var prefix []int
			for _, f := range strings.Fields(strings.Trim(v.Trace[0], "[]")) {
				var n int
				fmt.Sscan(f, &n)
				prefix = append(prefix, n)
			}
			_, out, dl := schedx.RunOnce(t, schedx.Config{Body: body(sc)}, prefix)
			if dl || !serialOutcomes(sc)[out] {
				vv := vk.Violationf(v.Fingerprint, "replayed: %s", out)
				vv.Scenario, vv.Trace = v.Scenario, v.Trace
				r.Report(vv)
			} else {
				vk.NoRepro()
			}
		}
		if !found {
			fmt.Println("replay: artefact belongs to the sequential part (run harness/cesium/c05 with VERIF_REPLAY)")
		}
		r.Finish()
	}
	r.MergeParts()
	total, distinct := 0, 0
	exhaustive := true
	var subs []any
	for i, sc := range scenarios {
		serial := serialOutcomes(sc)
		inflightSlot, inflightName = 0, sc.name
		cfg := schedx.Config{Name: sc.name, Body: body(sc), Preemptions: bound,
			Deadline: time.Now().Add(r.Left() / time.Duration(len(scenarios)-i)), OnExec: vk.Beat, OnRun: func(p []int) { vk.Inflight(inflightSlot, inflightName, []string{fmt.Sprint(p)}) }, MaxSteps: 5000,
			Check: func(out string, dl bool, choices []int) error {
				if dl {
					return &viol{vk.Violationf("concurrent:deadlock:"+sc.name[:2], "schedule %v deadlocks", choices), choices}
				}
				if !serial[out] {
					var ss []string
					for s := range serial {
						ss = append(ss, s)
					}
					sort.Strings(ss)
					return &viol{vk.Violationf("concurrent:not-linearizable:"+sc.name[:2],
						"schedule %v produced an outcome no serial order of the operations produces:\n  %s\nserial outcomes:\n  %s", choices, out, strings.Join(ss, "\n  ")), choices}
				}
				return nil
			}}
		st, err := schedx.Explore(t, cfg)
		total += st.Executions
		distinct += st.Distinct
		exhaustive = exhaustive && st.Exhaustive
		subs = append(subs, st)
		if err != nil {
			if vv, ok := err.(*viol); ok {
				vv.v.Scenario, vv.v.Trace = sc.name, []string{fmt.Sprint(vv.choices)}
				r.Report(vv.v)
			} else {
				r.HarnessError("%v", err)
			}
		}
	}
	r.Add("concurrent_schedules", total)
	r.Add("traces_validated_against_impl", total)
	r.Set("concurrent_distinct_outcomes", distinct)
	r.Set("concurrent_preemption_bound", bound)
	r.Set("concurrent_explorations", subs)
	if cur, ok := r.Get("exhaustive").(bool); ok {
		exhaustive = exhaustive && cur
	}
	r.Set("exhaustive", exhaustive)
	r.Assume("concurrent part: scheduling points at the mutex/rwmutex/atomic operations of cesium and x (go1.26.8 with the runtime determinism patches, GOMAXPROCS=1); the serial reference is the real controller run sequentially in every order of the same operations")
	r.Finish()
}
