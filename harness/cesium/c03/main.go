// C03 — cesium never stores overlapping data; conflicting writes fail cleanly.
//
// Explicit-state BFS over the real domain.DB (cesium/internal/domain) on an in-memory
// filesystem: open-writer / write / commit(end) / close / delete / reopen over 2-3
// writers on one channel with start/end timestamps from a small grid, including
// adjacent ranges, zero-length commits, preset ends, file rollover (tiny file cap) and
// commits after another writer filled the gap. After every op the real pointer list
// (read through the verif hook and, independently, through OpenIterator) must be
// sorted, pairwise non-overlapping, inside its files, and equal to the model.
package main

import (
	"context"
	"fmt"
	"os"
	"sort"
	"strings"
	"time"

	"github.com/synnaxlabs/cesium/internal/domain"
	"github.com/synnaxlabs/x/errors"
	xfs "github.com/synnaxlabs/x/io/fs"
	"github.com/synnaxlabs/x/telem"
	"github.com/synnaxlabs/x/validate"
	"verifkit/seqx"
	"verifkit/vk"
)

var ctx = context.Background()

const unit = 10 // one grid instant = 10ns, one byte per instant

type dom struct {
	s, e  int64
	bytes []byte
}

type wr struct {
	open    bool
	w       *domain.Writer
	start   int64
	preset  bool
	end     int64
	prev    int64 // previous commit end in the current domain, 0 if none
	pending []byte
	idx     int
}

type sys struct {
	cfg      scenario
	fs       xfs.FS
	db       *domain.DB
	doms     []dom
	ws       []*wr
	refusals int
}

type scenario struct {
	name     string
	grid     int
	writers  int
	fileSize telem.Size
	persist  telem.TimeSpan
	depth    int
	dels     bool
	seed     []string
}

func newSys(sc scenario) (*sys, error) {
	s := &sys{cfg: sc, fs: xfs.NewMem()}
	if err := s.openDB(); err != nil {
		return nil, err
	}
	for i := 0; i < sc.writers; i++ {
		s.ws = append(s.ws, &wr{idx: i})
	}
	for _, op := range sc.seed {
		if _, err := s.Apply(op); err != nil {
			return nil, fmt.Errorf("seed op %s: %w", op, err)
		}
	}
	return s, nil
}

func (s *sys) openDB() error {
	db, err := domain.Open(domain.Config{FS: s.fs, FileSize: s.cfg.fileSize})
	s.db = db
	return err
}

func (s *sys) Close() {
	for _, w := range s.ws {
		if w.open {
			_ = w.w.Close()
		}
	}
	_ = s.db.Close()
}

func wn(i int) string { return string(rune('A' + i)) }

func (s *sys) anyOpen() bool {
	for _, w := range s.ws {
		if w.open {
			return true
		}
	}
	return false
}

func (s *sys) Ops() []string {
	var ops []string
	g := s.cfg.grid
	for i, w := range s.ws {
		if !w.open {
			for t := 1; t <= g; t++ {
				ops = append(ops, fmt.Sprintf("open %s %d", wn(i), t))
			}
			for t := 1; t <= g; t++ {
				for _, d := range []int{1, 2, 0} {
					if t+d <= g+1 {
						ops = append(ops, fmt.Sprintf("open %s %d %d", wn(i), t, t+d))
					}
				}
			}
			continue
		}
		for t := 1; t <= g+1; t++ {
			ops = append(ops, fmt.Sprintf("wc %s %d", wn(i), t))
		}
		for t := 1; t <= g+1; t++ {
			ops = append(ops, fmt.Sprintf("commit %s %d", wn(i), t))
		}
		ops = append(ops, "close "+wn(i))
	}
	if s.cfg.dels {
		for a := 1; a <= g; a++ {
			for b := a + 1; b <= g+1; b++ {
				ops = append(ops, fmt.Sprintf("del %d %d", a, b))
			}
		}
	}
	if !s.anyOpen() {
		ops = append(ops, "reopen")
	}
	return ops
}

func ts(i int64) telem.TimeStamp { return telem.TimeStamp(i * unit) }

func overlaps(s1, e1, s2, e2 int64) bool { // half-open, non-empty ranges
	return s1 < e2 && s2 < e1
}

func (s *sys) pointInside(t int64) bool {
	for _, d := range s.doms {
		if d.s <= t && t < d.e {
			return true
		}
	}
	return false
}

func (s *sys) rangeOverlapsCommitted(a, b int64, exceptStart int64) bool {
	for _, d := range s.doms {
		if d.s == exceptStart {
			continue
		}
		if a == b {
			if d.s <= a && a < d.e {
				return true
			}
		} else if overlaps(a, b, d.s, d.e) {
			return true
		}
	}
	return false
}

func (s *sys) snapshot() ([]domain.VerifPointer, error) {
	ps := s.db.VerifPointers()
	return ps, nil
}

func ptrsString(ps []domain.VerifPointer) string {
	var b strings.Builder
	for _, p := range ps {
		fmt.Fprintf(&b, "[%d,%d)f%d@%d+%d ", int64(p.Start)/unit, int64(p.End)/unit, p.FileKey, p.Offset, p.Size)
	}
	return b.String()
}

func (s *sys) domsString() string {
	var b strings.Builder
	for _, d := range s.doms {
		fmt.Fprintf(&b, "[%d,%d)%v ", d.s, d.e, d.bytes)
	}
	return b.String()
}

func (s *sys) Apply(op string) (string, error) {
	f := strings.Fields(op)
	num := func(i int) int64 {
		var n int64
		fmt.Sscan(f[i], &n)
		return n
	}
	switch f[0] {
	case "open":
		w := s.ws[f[1][0]-'A']
		st := num(2)
		cfg := domain.WriterConfig{Start: ts(st), AutoIndexPersistInterval: s.cfg.persist}
		preset := len(f) > 3
		var en int64
		if preset {
			en = num(3)
			cfg.End = ts(en)
		}
		dw, err := s.db.OpenWriter(ctx, cfg)
		mustFail := s.pointInside(st) || (preset && en > st && s.rangeOverlapsCommitted(st, en, -1))
		if mustFail {
			if err == nil {
				_ = dw.Close()
				return "", vk.Violationf("open-inside-data-accepted", "OpenWriter(start=%d end=%v) succeeded although the start/range lies inside committed data %s", st, f[3:], s.domsString())
			}
			if !errors.Is(err, validate.ErrValidation) {
				return "", vk.Violationf("open-conflict-wrong-error", "OpenWriter(start=%d) inside data failed with a non-validation error: %v", st, err)
			}
			return "refused-conflict", nil
		}
		if err != nil {
			s.refusals++
			return "refused-other:" + short(err), nil
		}
		*w = wr{open: true, w: dw, start: st, preset: preset, end: en, idx: w.idx}
		return "ok", nil
	case "write", "wc":
		w := s.ws[f[1][0]-'A']
		b := byte(w.idx*64) + byte(w.start) + byte(len(w.pending))
		n, err := w.w.Write([]byte{b})
		if err != nil || n != 1 {
			return "", fmt.Errorf("write failed: %v", err)
		}
		w.pending = append(w.pending, b)
		if f[0] == "wc" {
			return s.commit(w, num(2))
		}
		return "ok", nil
	case "close":
		w := s.ws[f[1][0]-'A']
		if err := w.w.Close(); err != nil {
			return "", vk.Violationf("close-error", "writer close failed: %v", err)
		}
		w.open, w.w = false, nil
		w.pending, w.prev = nil, 0
		return "ok", nil
	case "commit":
		return s.commit(s.ws[f[1][0]-'A'], num(2))
	case "del":
		return s.del(num(1), num(2))
	case "reopen":
		if err := s.db.Close(); err != nil {
			return "", vk.Violationf("db-close-error", "db close: %v", err)
		}
		if err := s.openDB(); err != nil {
			return "", vk.Violationf("db-reopen-error", "reopen failed: %v (model %s)", err, s.domsString())
		}
		return "ok", nil
	}
	return "", fmt.Errorf("unknown op %q", op)
}

func short(err error) string {
	s := err.Error()
	if len(s) > 30 {
		s = s[:30]
	}
	return s
}

func (s *sys) commit(w *wr, e int64) (string, error) {
	before := ptrsString(s.db.VerifPointers())
	startBefore := int64(w.w.Start) / unit
	err := w.w.Commit(ctx, ts(e))
	after := s.db.VerifPointers()
	desc := func() string {
		return fmt.Sprintf("writer %s start=%d preset=%v end=%d prevCommit=%d pending=%d commit(%d)", wn(w.idx), w.start, w.preset, w.end, w.prev, len(w.pending), e)
	}
	if err != nil {
		if ptrsString(after) != before {
			return "", vk.Violationf("failed-commit-changed-state", "%s failed with %v but changed the index: %s -> %s", desc(), err, before, ptrsString(after))
		}
		// classify: was there a reason?
		ownStart := int64(-1)
		if w.prev != 0 {
			ownStart = w.start
		}
		endNS := e
		if w.preset {
			endNS = w.end
		}
		reason := ""
		switch {
		case w.preset && e > w.end:
			reason = "beyond-preset"
		case w.prev != 0 && endNS < w.prev && e < w.prev:
			reason = "backwards"
		case endNS <= w.start || e <= w.start:
			reason = "zero-length"
		case s.rangeOverlapsCommitted(w.start, endNS, ownStart) || s.rangeOverlapsCommitted(w.start, e, ownStart):
			reason = "overlap"
		}
		if reason == "" {
			s.refusals++
			return "refused-unexpected:" + short(err), nil
		}
		if reason != "beyond-preset" && !errors.Is(err, validate.ErrValidation) {
			return "", vk.Violationf("conflict-wrong-error:"+reason, "%s failed (%s) with a non-validation error: %v", desc(), reason, err)
		}
		return "refused-" + reason, nil
	}
	// success
	if len(w.pending) == 0 {
		if ptrsString(after) != before {
			return "", vk.Violationf("empty-commit-changed-state", "%s with nothing written changed the index: %s -> %s", desc(), before, ptrsString(after))
		}
		return "ok-empty", nil
	}
	// find own pointer
	var own *domain.VerifPointer
	for i := range after {
		if int64(after[i].Start)/unit == w.start {
			own = &after[i]
		}
	}
	if own == nil {
		return "", vk.Violationf("commit-ok-no-pointer", "%s succeeded but no pointer starts at %d: %s", desc(), w.start, ptrsString(after))
	}
	x := int64(own.End) / unit
	rolled := int64(w.w.Start)/unit != startBefore
	okEnds := map[int64]bool{e: true}
	if w.preset && !rolled {
		okEnds = map[int64]bool{w.end: true}
	}
	ownStart := int64(-1)
	if w.prev != 0 {
		ownStart = w.start
	}
	switch {
	case !okEnds[x]:
		return "", vk.Violationf("commit-wrong-end", "%s succeeded with domain end %d (rolled=%v): %s", desc(), x, rolled, ptrsString(after))
	case x <= w.start:
		return "", vk.Violationf("zero-length-commit-accepted", "%s succeeded with an empty or inverted domain [%d,%d)", desc(), w.start, x)
	case w.prev != 0 && !rolled && x < w.prev:
		return "", vk.Violationf("backwards-commit-accepted", "%s succeeded moving the domain end backwards from %d to %d", desc(), w.prev, x)
	case w.preset && e > w.end:
		return "", vk.Violationf("beyond-preset-accepted", "%s succeeded beyond the preset end", desc())
	case s.rangeOverlapsCommitted(w.start, x, ownStart):
		return "", vk.Violationf("overlapping-commit-accepted", "%s succeeded although [%d,%d) overlaps committed data %s; index now %s", desc(), w.start, x, s.domsString(), ptrsString(after))
	}
	// update model
	nd := dom{s: w.start, e: x, bytes: append([]byte{}, w.pending...)}
	replaced := false
	if w.prev != 0 {
		for i := range s.doms {
			if s.doms[i].s == w.start {
				s.doms[i] = nd
				replaced = true
			}
		}
	}
	if !replaced {
		s.doms = append(s.doms, nd)
		sort.Slice(s.doms, func(i, j int) bool { return s.doms[i].s < s.doms[j].s })
	}
	if rolled {
		if int64(w.w.Start)/unit != x {
			return "", vk.Violationf("rollover-wrong-start", "%s rolled over to start %d, expected %d", desc(), int64(w.w.Start)/unit, x)
		}
		w.start, w.prev, w.pending = x, 0, nil
		return "ok-rolled", nil
	}
	w.prev = x
	return "ok", nil
}

func (s *sys) delEnabled(a, b int64) bool {
	for _, w := range s.ws {
		if w.open && w.prev != 0 && overlaps(a, b, w.start, w.prev) {
			return false
		}
	}
	return true
}

func (s *sys) del(a, b int64) (string, error) {
	if !s.delEnabled(a, b) {
		return "skip-open-writer-owns-range", nil
	}
	off := func(_ context.Context, ds, t telem.TimeStamp) (telem.Size, telem.TimeStamp, error) {
		return telem.Size((int64(t) - int64(ds)) / unit), t, nil
	}
	before := ptrsString(s.db.VerifPointers())
	err := s.db.Delete(ctx, telem.TimeRange{Start: ts(a), End: ts(b)}, off, off)
	after := s.db.VerifPointers()
	if err != nil {
		if ptrsString(after) != before {
			return "", vk.Violationf("failed-delete-changed-state", "Delete[%d,%d) failed with %v but changed the index: %s -> %s", a, b, err, before, ptrsString(after))
		}
		s.refusals++
		return "refused:" + short(err), nil
	}
	// The delete geometry itself is C04's subject. Here the model adopts the observed
	// result after checking that every surviving byte is an original byte at its original
	// instant, nothing outside [a,b) was lost and nothing inside survived.
	type key struct {
		t int64
		v byte
	}
	old := map[key]bool{}
	for _, d := range s.doms {
		for j, v := range d.bytes {
			t := d.s + int64(j)
			if t < d.e {
				old[key{t, v}] = true
			}
		}
	}
	var nd []dom
	cur := map[key]bool{}
	for _, p := range after {
		bs, err := s.readPtr(p)
		if err != nil {
			return "", vk.Violationf("unreadable-after-delete", "pointer %v unreadable after Delete[%d,%d): %v", p, a, b, err)
		}
		d := dom{s: int64(p.Start) / unit, e: int64(p.End) / unit, bytes: bs}
		nd = append(nd, d)
		for j, v := range bs {
			t := d.s + int64(j)
			if t < d.e {
				cur[key{t, v}] = true
				if !old[key{t, v}] {
					return "", vk.Violationf("delete-invented-data", "after Delete[%d,%d) byte %d at instant %d was never committed there; before %s after %s", a, b, v, t, s.domsString(), ptrsString(after))
				}
				if a <= t && t < b {
					return "", vk.Violationf("delete-left-data", "after Delete[%d,%d) instant %d is still stored; before %s after %s", a, b, t, s.domsString(), ptrsString(after))
				}
			}
		}
	}
	for k := range old {
		if (k.t < a || k.t >= b) && !cur[k] {
			return "", vk.Violationf("delete-lost-data", "Delete[%d,%d) lost instant %d (outside the range); before %s after %s", a, b, k.t, s.domsString(), ptrsString(after))
		}
	}
	s.doms = nd
	return "ok", nil
}

func (s *sys) readPtr(p domain.VerifPointer) ([]byte, error) {
	it := s.db.OpenIterator(domain.IterRange(telem.TimeRangeMax))
	defer it.Close()
	if !it.SeekGE(ctx, p.Start) || it.TimeRange() != p.TimeRange {
		return nil, fmt.Errorf("iterator cannot position on %v (at %v)", p.TimeRange, it.TimeRange())
	}
	r, err := it.OpenReader(ctx)
	if err != nil {
		return nil, err
	}
	defer r.Close()
	b := make([]byte, r.Size())
	if len(b) == 0 {
		return b, nil
	}
	_, err = r.ReadAt(b, 0)
	return b, err
}

func (s *sys) Canon() string {
	var b strings.Builder
	b.WriteString(ptrsString(s.db.VerifPointers()))
	b.WriteString("| ")
	b.WriteString(s.domsString())
	for _, w := range s.ws {
		if !w.open {
			b.WriteString("| closed ")
			continue
		}
		fmt.Fprintf(&b, "| %d,%v,%d,%d,%d,fs%d ", w.start, w.preset, w.end, w.prev, len(w.pending), fileSizeOf(s, w))
	}
	return b.String()
}

// fileSizeOf makes the rollover-relevant hidden state (size of the file the writer appends
// to) part of the canonical state.
func fileSizeOf(s *sys, w *wr) int64 {
	_ = w
	var tot int64
	for k := uint16(1); k < 16; k++ {
		st, err := s.fs.Stat(domain.VerifFileName(k))
		if err != nil {
			break
		}
		tot = tot*7 + st.Size()
	}
	return tot
}

func (s *sys) Check() error {
	ps := s.db.VerifPointers()
	// sorted, non-overlapping, inside files
	for i, p := range ps {
		if !p.Start.Before(p.End) {
			return vk.Violationf("empty-domain-stored", "pointer %d has an empty or inverted range: %s", i, ptrsString(ps))
		}
		if i > 0 && ps[i-1].End.After(p.Start) {
			return vk.Violationf("overlapping-or-unsorted", "pointers %d and %d overlap or are out of order: %s (model %s)", i-1, i, ptrsString(ps), s.domsString())
		}
		st, err := s.fs.Stat(domain.VerifFileName(p.FileKey))
		if err != nil {
			return vk.Violationf("pointer-missing-file", "pointer %d refers to a missing file: %v", i, err)
		}
		if int64(p.Offset)+int64(p.Size) > st.Size() {
			return vk.Violationf("pointer-outside-file", "pointer %d [%d+%d) lies outside its file of %d bytes: %s", i, p.Offset, p.Size, st.Size(), ptrsString(ps))
		}
	}
	if len(ps) != len(s.doms) {
		return vk.Violationf("index-model-mismatch", "index %s, model %s", ptrsString(ps), s.domsString())
	}
	for i, p := range ps {
		d := s.doms[i]
		if int64(p.Start)/unit != d.s || int64(p.End)/unit != d.e || int(p.Size) != len(d.bytes) {
			return vk.Violationf("index-model-mismatch", "index %s, model %s", ptrsString(ps), s.domsString())
		}
	}
	// independent enumeration through the iterator + byte-for-byte content
	it := s.db.OpenIterator(domain.IterRange(telem.TimeRangeMax))
	i := 0
	for ok := it.SeekFirst(ctx); ok; ok = it.Next() {
		if i >= len(s.doms) {
			_ = it.Close()
			return vk.Violationf("iterator-extra-domain", "iterator yields more domains than committed: %s", s.domsString())
		}
		d := s.doms[i]
		if int64(it.TimeRange().Start)/unit != d.s || int64(it.TimeRange().End)/unit != d.e {
			_ = it.Close()
			return vk.Violationf("iterator-mismatch", "iterator domain %d is %v, model %s", i, it.TimeRange(), s.domsString())
		}
		r, err := it.OpenReader(ctx)
		if err != nil {
			_ = it.Close()
			return vk.Violationf("committed-unreadable", "domain %d unreadable: %v", i, err)
		}
		b := make([]byte, r.Size())
		if len(b) > 0 {
			if _, err := r.ReadAt(b, 0); err != nil {
				_ = r.Close()
				_ = it.Close()
				return vk.Violationf("committed-unreadable", "domain %d unreadable: %v", i, err)
			}
		}
		_ = r.Close()
		if string(b) != string(d.bytes) {
			_ = it.Close()
			return vk.Violationf("committed-data-changed", "domain [%d,%d) reads %v, committed %v", d.s, d.e, b, d.bytes)
		}
		i++
	}
	_ = it.Close()
	if i != len(s.doms) {
		return vk.Violationf("iterator-missing-domain", "iterator yields %d domains, committed %s", i, s.domsString())
	}
	return nil
}

func main() {
	r := vk.New("C03", "model_checking")
	gap := []string{"open A 1", "wc A 2", "close A", "open A 3", "wc A 4", "close A"}
	all := []scenario{
		{"q1: 2 writers, grid 4, no rollover, lazy persist, deletes", 4, 2, 0, 0, 6, true, nil},
		{"q2: 2 writers, grid 4, tiny files (rollover), always persist", 4, 2, 3, domain.AlwaysIndexPersistOnAutoCommit, 6, false, nil},
		{"q3: from [1,2)+[3,4), 2 writers, grid 5, no rollover", 5, 2, 0, 0, 5, false, gap},
		{"t1: 2 writers, grid 5, no rollover, lazy persist, deletes", 5, 2, 0, 0, 8, true, nil},
		{"t2: 2 writers, grid 4, tiny files (rollover), always persist, deletes", 4, 2, 3, domain.AlwaysIndexPersistOnAutoCommit, 8, true, nil},
		{"t3: 3 writers, grid 4, no rollover", 4, 3, 0, 0, 7, false, nil},
		{"t4: from [1,2)+[3,4), 3 writers, grid 5, deletes", 5, 3, 0, 0, 7, true, gap},
	}
	var scs []scenario
	for _, sc := range all {
		if (sc.name[0] == 'q') == r.Quick() {
			scs = append(scs, sc)
		}
	}
	mk := func(sc scenario) seqx.Config {
		return seqx.Config{Name: sc.name, MaxDepth: sc.depth, Seed: r.Seed,
			New: func() (seqx.Sys, error) { return newSys(sc) }}
	}
	if r.Replay != "" {
		v, err := vk.LoadReplay(r.Replay)
		if err != nil {
			fmt.Fprintln(os.Stderr, err)
			os.Exit(2)
		}
		for _, sc := range all {
			if sc.name == v.Scenario {
				if err := seqx.Replay(mk(sc), v.Trace); err != nil {
					var vv *vk.Violation
					if errors.As(err, &vv) {
						vv.Trace, vv.Scenario = v.Trace, v.Scenario
						r.Report(vv)
					} else {
						r.HarnessError("replay: %v", err)
					}
				} else {
					vk.NoRepro()
				}
				break
			}
		}
		r.Finish()
	}
	for i, sc := range scs {
		cfg := mk(sc)
		cfg.Deadline = time.Now().Add(r.Left() / time.Duration(len(scs)-i))
		seqx.Merge(r, seqx.Explore(r, cfg))
	}
	r.Set("rule", "BFS over open(writer,start[,preset end incl. adjacent and zero-length]) / write(1 byte) / commit(end on the grid incl. end<=start) / close / delete[a,b) / reopen on the real domain.DB; dedup on (real pointer list, model domains with bytes, per-writer state, file sizes); after every new state: pointers sorted, non-overlapping, inside files, equal to the model, every committed domain byte-for-byte readable through the iterator")
	r.Assume("in-memory xfs.MemFS; go1.26.8 toolchain; whether a commit rolls the file over is observed (Writer.Start) rather than predicted; domain-level deletes are only issued on ranges no open writer has committed into (cesium's controller enforces that above this layer)")
	r.Finish()
}
