// Package crashx is a crash-injecting xfs.FS: it counts every mutating call that crosses
// the FS/File interfaces (create, mkdir, write, write-at, truncate, rename, remove), lets
// exactly the first k of them through and fails every later one, optionally applying only
// the first bytes of the k-th call when that is a write (torn write). This is the
// process-crash model of property C02: completed filesystem calls survive, nothing is
// fsynced, nothing after the crash point reaches the disk image.
package crashx

import (
	"fmt"
	"os"
	"path"
	"sync"

	"github.com/synnaxlabs/x/errors"
	xfs "github.com/synnaxlabs/x/io/fs"
)

var ErrCrashed = errors.New("crashx: process has crashed (filesystem mutation refused)")

// Ctl is shared by a root FS, its Subs and its files.
type Ctl struct {
	mu      sync.Mutex
	N       int      // mutations seen so far (including the crashing one)
	CrashAt int      // index (0-based) of the mutation at which the process dies; -1 = never
	Torn    int      // if >0 and mutation CrashAt is a write: only the first Torn bytes land
	Crashed bool
	Log     []string // one line per mutation let through (or torn)
	Kinds   []string
	Sizes   []int
}

func NewCtl(crashAt, torn int) *Ctl { return &Ctl{CrashAt: crashAt, Torn: torn} }

// step decides the fate of the next mutation: apply fully (true, -1), apply torn (true, n),
// or refuse (false).
func (c *Ctl) step(kind, desc string, size int) (apply bool, torn int) {
	c.mu.Lock()
	defer c.mu.Unlock()
	if c.Crashed {
		return false, -1
	}
	idx := c.N
	c.N++
	if idx == c.CrashAt {
		c.Crashed = true
		if c.Torn > 0 && (kind == "write" || kind == "writeat") && c.Torn < size {
			c.Log = append(c.Log, fmt.Sprintf("%s TORN(%d/%d)", desc, c.Torn, size))
			return true, c.Torn
		}
		return false, -1
	}
	c.Log = append(c.Log, desc)
	c.Kinds = append(c.Kinds, kind)
	c.Sizes = append(c.Sizes, size)
	return true, -1
}

func (c *Ctl) IsCrashed() bool {
	c.mu.Lock()
	defer c.mu.Unlock()
	return c.Crashed
}

func (c *Ctl) Count() int {
	c.mu.Lock()
	defer c.mu.Unlock()
	return c.N
}

type FS struct {
	inner xfs.FS
	ctl   *Ctl
	dir   string
}

func Wrap(inner xfs.FS, ctl *Ctl) *FS { return &FS{inner: inner, ctl: ctl} }

var _ xfs.FS = (*FS)(nil)

func (f *FS) p(name string) string { return path.Join(f.dir, name) }

func (f *FS) Open(name string, flag int) (xfs.File, error) {
	if flag&os.O_CREATE != 0 {
		exists, err := f.inner.Exists(name)
		if err != nil {
			return nil, err
		}
		if !exists {
			if ok, _ := f.ctl.step("create", "create "+f.p(name), 0); !ok {
				return nil, ErrCrashed
			}
		}
	}
	if flag&os.O_TRUNC != 0 {
		if ok, _ := f.ctl.step("truncate", "open-trunc "+f.p(name), 0); !ok {
			return nil, ErrCrashed
		}
	}
	file, err := f.inner.Open(name, flag)
	if err != nil {
		return nil, err
	}
	return &File{File: file, ctl: f.ctl, name: f.p(name)}, nil
}

func (f *FS) Sub(name string) (xfs.FS, error) {
	exists := name == "" || name == "."
	if !exists {
		var err error
		if exists, err = f.inner.Exists(name); err != nil {
			return nil, err
		}
	}
	if !exists {
		if ok, _ := f.ctl.step("mkdir", "mkdir "+f.p(name), 0); !ok {
			return nil, ErrCrashed
		}
	}
	sub, err := f.inner.Sub(name)
	if err != nil {
		return nil, err
	}
	return &FS{inner: sub, ctl: f.ctl, dir: f.p(name)}, nil
}

func (f *FS) List(name string) ([]xfs.FileInfo, error) { return f.inner.List(name) }
func (f *FS) Exists(name string) (bool, error)           { return f.inner.Exists(name) }
func (f *FS) Stat(name string) (xfs.FileInfo, error)     { return f.inner.Stat(name) }

func (f *FS) Remove(name string) error {
	if ok, _ := f.ctl.step("remove", "remove "+f.p(name), 0); !ok {
		return ErrCrashed
	}
	return f.inner.Remove(name)
}

func (f *FS) Rename(o, n string) error {
	if ok, _ := f.ctl.step("rename", "rename "+f.p(o)+" -> "+f.p(n), 0); !ok {
		return ErrCrashed
	}
	return f.inner.Rename(o, n)
}

type File struct {
	xfs.File
	ctl  *Ctl
	name string
}

func (f *File) Write(p []byte) (int, error) {
	ok, torn := f.ctl.step("write", fmt.Sprintf("write %s %dB", f.name, len(p)), len(p))
	if !ok {
		return 0, ErrCrashed
	}
	if torn >= 0 {
		n, _ := f.File.Write(p[:torn])
		return n, ErrCrashed
	}
	return f.File.Write(p)
}

func (f *File) WriteAt(p []byte, off int64) (int, error) {
	ok, torn := f.ctl.step("writeat", fmt.Sprintf("writeat %s @%d %dB", f.name, off, len(p)), len(p))
	if !ok {
		return 0, ErrCrashed
	}
	if torn >= 0 {
		n, _ := f.File.WriteAt(p[:torn], off)
		return n, ErrCrashed
	}
	return f.File.WriteAt(p, off)
}

func (f *File) Truncate(size int64) error {
	if ok, _ := f.ctl.step("truncate", fmt.Sprintf("truncate %s %d", f.name, size), 0); !ok {
		return ErrCrashed
	}
	return f.File.Truncate(size)
}
