// C08 — frame wire codec round-trips every frame and is safe on any bytes.
//
// Bounded exhaustive input enumeration against the real codec.Codec:
//   (1) round-trip: every frame of the bounded frame space (series per channel, lengths,
//       time ranges, alignments, key order, repeated keys, subsets) through Encode/Decode
//       and EncodeStream/DecodeStream in every codec state (static; dynamic after 1-3
//       updates with encoder and decoder up to 2 updates apart; back-to-back updates),
//       compared with an independently written sort-and-merge reference;
//   (2) arbitrary bytes: all byte strings up to length 5 over a boundary alphabet, every
//       truncation of every valid encoding and every 4-byte field of it replaced by boundary
//       values, and data frames sent to a dynamic codec before any update: no panic, and
//       allocation proportional to the input.
package main

import (
	"bytes"
	"context"
	"encoding/binary"
	"fmt"
	"os"
	"runtime"
	"sort"
	"strings"
	"time"

	"github.com/synnaxlabs/synnax/pkg/distribution/channel"
	"github.com/synnaxlabs/synnax/pkg/distribution/framer/codec"
	"github.com/synnaxlabs/synnax/pkg/distribution/framer/frame"
	"github.com/synnaxlabs/x/telem"
	"verifkit/vk"
)

var ctx = context.Background()

var (
	keys  = channel.Keys{1, 2, 3, 4}
	types = []telem.DataType{telem.Uint8T, telem.Int64T, telem.StringT, telem.Float32T}
)

func dtOf(k channel.Key, ks channel.Keys, ts []telem.DataType) telem.DataType {
	for i, x := range ks {
		if x == k {
			return ts[i]
		}
	}
	return telem.UnknownT
}

// sample data for channel k, n samples, distinct per (k, seed)
func mkSeries(k channel.Key, n int, seed int, tr telem.TimeRange, al telem.Alignment) telem.Series {
	var s telem.Series
	switch k {
	case 1:
		v := make([]uint8, n)
		for i := range v {
			v[i] = uint8(seed*16 + i + 1)
		}
		s = telem.NewSeries(v)
	case 2:
		v := make([]int64, n)
		for i := range v {
			v[i] = int64(seed*1000 + i)
		}
		s = telem.NewSeries(v)
	case 3:
		v := make([]string, n)
		for i := range v {
			v[i] = fmt.Sprintf("s%d.%d%s", seed, i, strings.Repeat("x", (seed+i)%3))
		}
		s = telem.NewSeries(v)
	case 4:
		v := make([]float32, n)
		for i := range v {
			v[i] = float32(seed) + float32(i)/4
		}
		s = telem.NewSeries(v)
	}
	s.TimeRange, s.Alignment = tr, al
	return s
}

type entry struct {
	key channel.Key
	s   telem.Series
}

type sdesc struct {
	DataType  telem.DataType
	TimeRange telem.TimeRange
	Alignment telem.Alignment
	Data      string
}

// reference: per key, stable sort by alignment, merge alignment-contiguous runs.
func reference(es []entry) map[channel.Key][]sdesc {
	out := map[channel.Key][]sdesc{}
	byKey := map[channel.Key][]telem.Series{}
	var order []channel.Key
	for _, e := range es {
		if _, ok := byKey[e.key]; !ok {
			order = append(order, e.key)
		}
		byKey[e.key] = append(byKey[e.key], e.s)
	}
	for _, k := range order {
		ss := byKey[k]
		sort.SliceStable(ss, func(i, j int) bool { return ss[i].Alignment < ss[j].Alignment })
		var cur *telem.Series
		flush := func() {
			if cur != nil {
				out[k] = append(out[k], sdesc{cur.DataType, cur.TimeRange, cur.Alignment, string(cur.Data)})
			}
		}
		for i := range ss {
			s := ss[i]
			if cur != nil {
				upper := telem.NewAlignment(cur.Alignment.DomainIndex(), cur.Alignment.SampleIndex()+uint32(cur.Len()))
				if upper == s.Alignment {
					cur.Data = append(append([]byte{}, cur.Data...), s.Data...)
					if s.TimeRange.End > cur.TimeRange.End {
						cur.TimeRange.End = s.TimeRange.End
					}
					if s.TimeRange.Start < cur.TimeRange.Start {
						cur.TimeRange.Start = s.TimeRange.Start
					}
					continue
				}
			}
			flush()
			c := s
			cur = &c
		}
		flush()
	}
	return out
}

func describe(fr frame.Frame) map[channel.Key][]sdesc {
	out := map[channel.Key][]sdesc{}
	for i, k := range fr.RawKeys() {
		if fr.ShouldExcludeRaw(i) {
			continue
		}
		s := fr.RawSeriesAt(i)
		out[k] = append(out[k], sdesc{s.DataType, s.TimeRange, s.Alignment, string(s.Data)})
	}
	return out
}

func sameDesc(a, b map[channel.Key][]sdesc) bool {
	if len(a) != len(b) {
		return false
	}
	for k, x := range a {
		y := b[k]
		if len(x) != len(y) {
			return false
		}
		for i := range x {
			if x[i] != y[i] {
				return false
			}
		}
	}
	return true
}

func mkFrame(es []entry) frame.Frame {
	ks := make([]channel.Key, len(es))
	ss := make([]telem.Series, len(es))
	for i, e := range es {
		ks[i], ss[i] = e.key, e.s
	}
	return frame.NewMulti(ks, ss)
}

var (
	trs = []telem.TimeRange{{}, {Start: 10, End: 20}, {Start: 15, End: 30}, {Start: 25, End: 25}}
)

// frames enumerates the bounded frame space over the given channel subset.
func frames(chans []channel.Key, visit func(es []entry)) {
	// per channel: 0, 1 or 2 series with lengths from {0,1,2}; alignment of a second series is
	// contiguous, gapped or equal; time ranges from trs
	type opt struct{ es []entry }
	per := map[channel.Key][]opt{}
	for _, k := range chans {
		opts := []opt{{nil}}
		for _, n := range []int{0, 1, 2} {
			for ti, tr := range trs {
				for _, al := range []telem.Alignment{0, telem.NewAlignment(1, 5)} {
					opts = append(opts, opt{[]entry{{k, mkSeries(k, n, ti, tr, al)}}})
				}
			}
		}
		// two series
		for _, n1 := range []int{1, 2} {
			for _, n2 := range []int{0, 1} {
				for _, rel := range []string{"contiguous", "gap", "same", "before"} {
					a1 := telem.NewAlignment(1, 5)
					var a2 telem.Alignment
					switch rel {
					case "contiguous":
						a2 = telem.NewAlignment(1, 5+uint32(n1))
					case "gap":
						a2 = telem.NewAlignment(1, 9)
					case "same":
						a2 = a1
					case "before":
						a2 = telem.NewAlignment(0, 7)
					}
					opts = append(opts, opt{[]entry{{k, mkSeries(k, n1, 1, trs[1], a1)}, {k, mkSeries(k, n2, 2, trs[2], a2)}}})
				}
			}
		}
		per[k] = opts
	}
	var rec func(i int, acc []entry)
	rec = func(i int, acc []entry) {
		if i == len(chans) {
			visit(acc)
			if len(acc) >= 2 { // key order permuted: reversed
				rev := make([]entry, len(acc))
				for j := range acc {
					rev[len(acc)-1-j] = acc[j]
				}
				visit(rev)
			}
			return
		}
		for _, o := range per[chans[i]] {
			rec(i+1, append(append([]entry{}, acc...), o.es...))
		}
	}
	rec(0, nil)
}

type stats struct {
	roundTrips, flagCombos int
	flags                  map[byte]int
}

func roundTrip(r *vk.Run, name string, enc, dec *codec.Codec, es []entry, st *stats, stream bool) {
	fr := mkFrame(es)
	var b []byte
	var err error
	func() {
		defer func() {
			if p := recover(); p != nil {
				err = fmt.Errorf("panic: %v", p)
			}
		}()
		if stream {
			var buf bytes.Buffer
			err = enc.EncodeStream(ctx, &buf, fr)
			b = buf.Bytes()
		} else {
			b, err = enc.Encode(ctx, fr)
		}
	}()
	if err != nil {
		v := vk.Violationf("encode-fails:"+name, "encoding a valid frame failed: %v; frame %s", err, frameStr(es))
		v.Scenario, v.Trace = name, []string{frameStr(es)}
		r.Report(v)
		return
	}
	if len(b) > 0 {
		st.flags[b[0]]++
	}
	var out frame.Frame
	func() {
		defer func() {
			if p := recover(); p != nil {
				err = fmt.Errorf("panic: %v", p)
			}
		}()
		if stream {
			out, err = dec.DecodeStream(bytes.NewReader(b))
		} else {
			out, err = dec.Decode(b)
		}
	}()
	st.roundTrips++
	if err != nil {
		v := vk.Violationf("decode-fails:"+name, "decoding the encoding of a valid frame failed: %v; frame %s bytes %x", err, frameStr(es), b)
		v.Scenario, v.Trace = name, []string{frameStr(es)}
		r.Report(v)
		return
	}
	// equality up to key order and merging of alignment-contiguous series: both sides are
	// normalised with the reference sort-and-merge
	var outEs []entry
	for i, k := range out.RawKeys() {
		if !out.ShouldExcludeRaw(i) {
			outEs = append(outEs, entry{k, out.RawSeriesAt(i)})
		}
	}
	_ = describe
	want, got := reference(es), reference(outEs)
	if !sameDesc(want, got) {
		v := vk.Violationf("round-trip-mismatch:"+name, "decode(encode(f)) differs: frame %s\n want %v\n got  %v\n bytes %x", frameStr(es), want, got, b)
		v.Scenario, v.Trace = name, []string{frameStr(es)}
		r.Report(v)
	}
}

func frameStr(es []entry) string {
	var b strings.Builder
	for _, e := range es {
		fmt.Fprintf(&b, "{k%d len%d tr[%d,%d) al%v data%x} ", e.key, e.s.Len(), e.s.TimeRange.Start, e.s.TimeRange.End, e.s.Alignment, e.s.Data)
	}
	return b.String()
}

// decodeSafely decodes arbitrary bytes and checks: no panic, bounded allocation.
func decodeSafely(r *vk.Run, name string, dec *codec.Codec, in []byte, origin string) {
	// a fatal runtime error (out of memory) cannot be recovered: the supervisor replays the
	// recorded input in a fresh process and reports it
	vk.Inflight(0, name, []string{fmt.Sprintf("%x", in)})
	var ms1, ms2 runtime.MemStats
	runtime.ReadMemStats(&ms1)
	var perr any
	func() {
		defer func() { perr = recover() }()
		_, _ = dec.Decode(in)
	}()
	runtime.ReadMemStats(&ms2)
	if perr != nil {
		v := vk.Violationf("decode-panics:"+name, "Decode(%x) panicked: %v (%s)", in, perr, origin)
		v.Scenario, v.Trace = name, []string{fmt.Sprintf("%x", in)}
		r.Report(v)
		return
	}
	if d := ms2.TotalAlloc - ms1.TotalAlloc; d > uint64(64*len(in)+512<<10) {
		v := vk.Violationf("decode-allocates-out-of-proportion:"+name, "Decode of %d bytes (%x) allocated %d bytes (%s)", len(in), trunc(in), d, origin)
		v.Scenario, v.Trace = name, []string{fmt.Sprintf("%x", in)}
		r.Report(v)
	}
}

func trunc(b []byte) []byte {
	if len(b) > 40 {
		return b[:40]
	}
	return b
}

func main() {
	r := vk.New("C08", "exploration")
	quick := r.Quick()
	if r.Replay != "" {
		v, err := vk.LoadReplay(r.Replay)
		if err != nil {
			fmt.Fprintln(os.Stderr, err)
			os.Exit(2)
		}
		var in []byte
		vk.ReplayRan()
		if _, err := fmt.Sscanf(v.Trace[0], "%x", &in); err == nil && !strings.Contains(v.Trace[0], "{") {
			name := v.Scenario
			dec := codec.NewStatic(keys, types)
			if strings.Contains(name, "dynamic-before-update") {
				dec = codec.NewDynamic(nil)
			}
			decodeSafely(r, name, dec, in, "replay")
		} else {
			fmt.Println("replay of round-trip cases: re-run the check (cases are enumerated deterministically)")
		}
		r.Finish()
	}
	st := &stats{flags: map[byte]int{}}
	// ---- (1) round trips, static codec
	subsets := [][]channel.Key{{1}, {2}, {3}, {1, 2}, {2, 4}, {2, 3}, {1, 2, 4}}
	if !quick {
		subsets = append(subsets, []channel.Key{1, 2, 3, 4}, []channel.Key{3, 4})
	}
	for _, sub := range subsets {
		for _, compress := range []bool{true, false} {
			var opts []codec.Option
			nm := "static"
			if !compress {
				opts = append(opts, codec.DisableAlignmentCompression())
				nm = "static-nocompress"
			}
			// codec over the full key set (subset frames) and over exactly the subset (all-present)
			for _, full := range []bool{true, false} {
				ks, ts := keys, types
				if !full {
					ks = sub
					ts = nil
					for _, k := range sub {
						ts = append(ts, dtOf(k, keys, types))
					}
				}
				enc, dec := codec.NewStatic(ks, ts, opts...), codec.NewStatic(ks, ts, opts...)
				frames(sub, func(es []entry) {
					if time.Now().After(r.Deadline()) {
						return
					}
					roundTrip(r, nm, enc, dec, es, st, len(es)%2 == 0)
					vk.Beat()
				})
			}
		}
	}
	// many series of one channel with equal alignments (sort stability beyond insertion-sort sizes)
	for _, n := range []int{13, 24, 48} {
		var es []entry
		for i := 0; i < n; i++ {
			k := channel.Key(1 + i%2)
			es = append(es, entry{k, mkSeries(k, 1, i%7, telem.TimeRange{}, 0)})
		}
		enc, dec := codec.NewStatic(keys, types), codec.NewStatic(keys, types)
		roundTrip(r, "static-many-series", enc, dec, es, st, false)
	}
	// ---- dynamic codecs: updates apart / back to back
	sets := []channel.Keys{{1}, {1, 2}, {2, 3}, {1, 2, 4}}
	tsOf := func(ks channel.Keys) []telem.DataType {
		var t []telem.DataType
		for _, k := range ks {
			t = append(t, dtOf(k, keys, types))
		}
		return t
	}
	dyn := 0
	for nUpd := 1; nUpd <= 3; nUpd++ {
		for encAhead := 0; encAhead <= 2; encAhead++ {
			for decAhead := 0; decAhead <= 2; decAhead++ {
				for _, backToBack := range []bool{false, true} {
					enc, dec := codec.NewDynamic(nil), codec.NewDynamic(nil)
					frameFor := func(ks channel.Keys, seed int) []entry {
						var es []entry
						for _, k := range ks {
							es = append(es, entry{k, mkSeries(k, 2, seed, trs[1], telem.NewAlignment(1, 3))})
						}
						return es
					}
					apply := func(c *codec.Codec, upto int, exercise bool, peer *codec.Codec) {
						for u := 0; u < upto; u++ {
							c.VerifUpdate(sets[u%len(sets)], tsOf(sets[u%len(sets)]))
							if exercise && !backToBack && u < upto-1 {
								// use the codec between updates (the normal pattern)
								_, _ = c.Encode(ctx, mkFrame(frameFor(sets[u%len(sets)], 9)))
							}
						}
					}
					apply(enc, nUpd+encAhead, true, dec)
					apply(dec, nUpd+decAhead, true, enc)
					// the encoder encodes with its latest state; the decoder must know that state
					// (it does when it is at least as far along)
					if decAhead < encAhead {
						continue
					}
					cur := sets[(nUpd+encAhead-1)%len(sets)]
					roundTrip(r, fmt.Sprintf("dynamic(updates=%d,encAhead=%d,decAhead=%d,backToBack=%v)", nUpd, encAhead, decAhead, backToBack), enc, dec, frameFor(cur, nUpd), st, false)
					dyn++
				}
			}
		}
	}
	// ---- (2) arbitrary bytes
	evals := 0
	alpha := []byte{0x00, 0x01, 0x02, 0x7f, 0x80, 0xfe, 0xff}
	maxLen := 4
	if !quick {
		maxLen = 5
	}
	mkDec := func() *codec.Codec { return codec.NewStatic(keys, types) }
	dec := mkDec()
	var gen func(prefix []byte)
	gen = func(prefix []byte) {
		decodeSafely(r, "bytes-static", dec, prefix, "alphabet enumeration")
		evals++
		if len(prefix) == maxLen {
			return
		}
		for _, b := range alpha {
			gen(append(append([]byte{}, prefix...), b))
		}
	}
	for f := 0; f < 64; f++ { // every flag byte first
		gen([]byte{byte(f)})
		vk.Beat()
	}
	// flag byte + valid sequence number 1 + boundary lengths
	for f := 0; f < 64; f++ {
		for _, n := range []uint32{0, 1, 2, 1 << 16, 1 << 31, 0x7fffffff, 0xffffffff} {
			in := []byte{byte(f), 1, 0, 0, 0}
			in = binary.LittleEndian.AppendUint32(in, n)
			decodeSafely(r, "bytes-static", dec, in, "flag+seq+length")
			in2 := append(append([]byte{}, in...), 1, 0, 0, 0)
			in2 = binary.LittleEndian.AppendUint32(in2, n)
			decodeSafely(r, "bytes-static", dec, in2, "flag+seq+length+key+length")
			evals += 2
		}
	}
	// mutations of valid encodings
	var valid [][]byte
	frames([]channel.Key{1, 2}, func(es []entry) {
		if len(valid) < 400 || (!quick && len(valid) < 3000) {
			if b, err := codec.NewStatic(keys, types).Encode(ctx, mkFrame(es)); err == nil {
				valid = append(valid, b)
			}
		}
	})
	frames([]channel.Key{3}, func(es []entry) {
		if b, err := codec.NewStatic(keys, types).Encode(ctx, mkFrame(es)); err == nil && len(valid) < 600 {
			valid = append(valid, b)
		}
	})
	for _, b := range valid {
		if time.Now().After(r.Deadline()) {
			break
		}
		for cut := 0; cut < len(b); cut++ {
			decodeSafely(r, "bytes-static", dec, b[:cut], "truncation of a valid encoding")
			evals++
		}
		for off := 1; off+4 <= len(b); off++ {
			for _, n := range []uint32{0, 1, uint32(len(b)) - 1, uint32(len(b)) + 1, 1 << 16, 1 << 31, 0xffffffff} {
				m := append([]byte{}, b...)
				binary.LittleEndian.PutUint32(m[off:], n)
				decodeSafely(r, "bytes-static", dec, m, "4-byte field of a valid encoding replaced")
				evals++
			}
		}
		vk.Beat()
	}
	// data frames to a dynamic codec before any update
	for _, b := range valid[:min(len(valid), 50)] {
		decodeSafely(r, "bytes-dynamic-before-update", codec.NewDynamic(nil), b, "valid data frame sent before the channel set was negotiated")
		evals++
	}
	r.Set("evaluations", st.roundTrips+evals)
	r.Set("round_trips", st.roundTrips)
	r.Set("dynamic_state_cases", dyn)
	r.Set("byte_strings_decoded", evals)
	r.Set("distinct_nontrivial", len(st.flags))
	var fl []string
	for f, n := range st.flags {
		fl = append(fl, fmt.Sprintf("%06b:%d", f, n))
	}
	sort.Strings(fl)
	r.Set("flag_bytes_produced_by_encode", fl)
	r.Set("exhaustive", !time.Now().After(r.Deadline()))
	r.Sample(map[string]any{"frame": "k1 two contiguous series + k2 one series, reversed key order", "kind": "round-trip"})
	r.Sample(map[string]any{"bytes": "3f01000000ffffff7f", "kind": "arbitrary bytes: all flags, seq 1, length 2^31-1"})
	r.Set("rule", "frames: per channel 0-2 series x lengths {0,1,2} x time ranges {zero, A, B, a non-zero instant} x alignments {0, a, contiguous, gapped, equal, earlier domain}, channel subsets, reversed key order, codecs over the full and the exact key set, with/without alignment compression, Encode/Decode and EncodeStream/DecodeStream alternating; dynamic codecs 1-3 updates with encoder/decoder 0-2 updates apart, with and without use between updates; bytes: all strings up to length 4 (thorough 5) over {00,01,02,7f,80,fe,ff} after each of the 64 flag bytes, boundary lengths after a valid sequence number, every truncation and every 4-byte field mutation of valid encodings, data frames before the first update. distinct_nontrivial = distinct flag bytes the encoder produced")
	r.Assume("go1.26.8 toolchain; allocation measured with runtime.MemStats.TotalAlloc around each Decode in a single-threaded loop (bound 64*len+512KiB); decode of arbitrary bytes uses a static codec over 4 channels (u8, i64, string, f32)")
	r.Finish()
}
