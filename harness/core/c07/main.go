// C07 — a cluster is one data space: write via any node, read via any node.
//
// Bounded exhaustive enumeration of configurations x write scripts against the real
// distribution layer of an in-memory cluster (core/pkg/distribution/mock):
//
//	placements: index/data group A and group B on every pair of leaseholders of a 1-3
//	node cluster (plus a free virtual channel), every gateway for the writers and every
//	gateway for the iterators;
//	scripts: the write scripts of gen(): one or two writer sessions over one group, both
//	groups or both groups plus the free channel, frames of one group, of both, or mixing
//	local, remote and free channels, with auto commit or explicit commits, back fill and
//	conflicting (overlapping) sessions.
//
// Each script also runs against one plain cesium engine holding the same channels (the
// single-node store of the statement). Oracle: a distributed iterator opened on every
// node returns, per channel, exactly the samples the single-node iterator returns for
// the same traversal (forward/backward auto span, fixed spans, bounded ranges); every
// leaseholder's own engine holds its channels' samples and nobody else's; a commit that
// the single-node store refuses is not acknowledged by the cluster, an acknowledged
// commit is durable on every involved leaseholder; opening a writer or iterator on a key
// that does not exist fails through every gateway.
package main

import (
	"context"
	"fmt"
	"os"
	"sort"
	"strings"
	"sync"
	"sync/atomic"
	"time"

	"github.com/onsi/gomega"
	"github.com/synnaxlabs/cesium"
	"github.com/synnaxlabs/synnax/pkg/distribution/channel"
	"github.com/synnaxlabs/synnax/pkg/distribution/framer"
	"github.com/synnaxlabs/synnax/pkg/distribution/framer/frame"
	"github.com/synnaxlabs/synnax/pkg/distribution/mock"
	"github.com/synnaxlabs/synnax/pkg/distribution/node"
	"github.com/synnaxlabs/x/control"
	xfs "github.com/synnaxlabs/x/io/fs"
	"github.com/synnaxlabs/x/telem"
	"verifkit/vk"
)

var ctx = context.Background()

// ---- scripts

// a frame part: samples for one group at the given second stamps
type part struct {
	group  int // 0 = A, 1 = B, 2 = free virtual
	secs   []int
	masked bool // present in the frame's backing arrays but filtered out with KeepKeys
}

type step struct {
	kind  string // "write" | "commit"
	parts []part
}

type session struct {
	groups []int // groups whose channels the writer is opened on
	start  int   // seconds
	auto   bool  // EnableAutoCommit
	steps  []step
}

type script struct {
	name     string
	sessions []session
}

func gen() []script {
	w := func(ps ...part) step { return step{kind: "write", parts: ps} }
	c := step{kind: "commit"}
	A := func(s ...int) part { return part{group: 0, secs: s} }
	B := func(s ...int) part { return part{group: 1, secs: s} }
	V := func(s ...int) part { return part{group: 2, secs: s} }
	M := func(p part) part { p.masked = true; return p }
	return []script{
		{"one group, one frame", []session{{[]int{0}, 10, false, []step{w(A(10, 11, 12)), c}}}},
		{"one group, two frames, two commits", []session{{[]int{0}, 10, false, []step{w(A(10, 11)), c, w(A(12, 13, 14)), c}}}},
		{"one group, auto commit", []session{{[]int{0}, 10, true, []step{w(A(10, 11)), w(A(12))}}}},
		{"both groups, one frame each", []session{{[]int{0, 1}, 10, false, []step{w(A(10, 11)), w(B(10, 11, 12)), c}}}},
		{"both groups, mixed frame", []session{{[]int{0, 1}, 10, false, []step{w(A(10, 11), B(10, 11)), c, w(A(12), B(12, 13)), c}}}},
		{"both groups, mixed frame, auto commit", []session{{[]int{0, 1}, 10, true, []step{w(A(10, 11), B(10, 11)), w(B(12)), w(A(12, 13))}}}},
		{"both groups + free, frames mixing local, remote and free", []session{{[]int{0, 1, 2}, 10, false, []step{w(A(10), B(10), V(10)), w(V(11)), w(A(11, 12), V(12)), c}}}},
		{"uncommitted tail is not stored", []session{{[]int{0, 1}, 10, false, []step{w(A(10, 11), B(10)), c, w(A(12), B(11, 12))}}}},
		{"two sessions, second later", []session{
			{[]int{0, 1}, 10, false, []step{w(A(10, 11), B(10, 11)), c}},
			{[]int{0, 1}, 20, false, []step{w(A(20, 21), B(20)), c}}}},
		{"two sessions, second back-fills", []session{
			{[]int{0, 1}, 20, false, []step{w(A(20, 21), B(20, 21)), c}},
			{[]int{0}, 10, false, []step{w(A(10, 11)), c}}}},
		{"second session overlaps group A only", []session{
			{[]int{0}, 10, false, []step{w(A(10, 11, 12)), c}},
			{[]int{0, 1}, 11, false, []step{w(A(11, 12), B(11, 12)), c}}}},
		{"second session overlaps group B only, auto commit", []session{
			{[]int{1}, 10, false, []step{w(B(10, 11, 12)), c}},
			{[]int{0, 1}, 11, true, []step{w(A(11, 12), B(11, 12))}}}},
		{"second session starts earlier and runs into committed data of group A", []session{
			{[]int{0}, 10, false, []step{w(A(10, 11, 12)), c}},
			{[]int{0, 1}, 5, false, []step{w(A(5, 6, 11), B(5, 6, 11)), c}}}},
		{"second session starts earlier and runs into committed data of group B", []session{
			{[]int{1}, 10, false, []step{w(B(10, 11, 12)), c}},
			{[]int{1}, 5, false, []step{w(B(5, 6)), c, w(B(11)), c}}}},
		{"frames with filtered-out entries (KeepKeys)", []session{
			{[]int{0, 1}, 10, false, []step{w(A(10, 11), M(B(10, 11))), c, w(M(A(12)), B(12, 13)), c}}}},
		{"only group B", []session{{[]int{1}, 5, false, []step{w(B(5, 6, 7)), c, w(B(8)), c}}}},
	}
}

// ---- a store: either the cluster (through a gateway) or one cesium engine

type chans struct {
	idx, dat [2]uint32 // index and data channel keys of groups A and B
	free     uint32
}

func (c chans) keysOf(groups []int) []uint32 {
	var ks []uint32
	for _, g := range groups {
		if g == 2 {
			ks = append(ks, c.free)
		} else {
			ks = append(ks, c.idx[g], c.dat[g])
		}
	}
	return ks
}

func secs(s []int) telem.Series {
	v := make([]telem.TimeStamp, len(s))
	for i, x := range s {
		v[i] = telem.TimeStamp(x) * telem.SecondTS
	}
	return telem.NewSeries(v)
}

func vals(g int, s []int) telem.Series {
	v := make([]int64, len(s))
	for i, x := range s {
		v[i] = int64(1000*(g+1) + x)
	}
	return telem.NewSeries(v)
}

func frameOf(c chans, ps []part) (keys []uint32, series []telem.Series, keep []uint32) {
	defer func() {
		masked := false
		for _, p := range ps {
			masked = masked || p.masked
		}
		if !masked {
			keep = nil
		}
	}()
	for _, p := range ps {
		if !p.masked {
			if p.group == 2 {
				keep = append(keep, c.free)
			} else {
				keep = append(keep, c.idx[p.group], c.dat[p.group])
			}
		}
		if p.group == 2 {
			keys = append(keys, c.free)
			series = append(series, vals(2, p.secs))
			continue
		}
		keys = append(keys, c.idx[p.group], c.dat[p.group])
		series = append(series, secs(p.secs), vals(p.group, p.secs))
	}
	return
}

// outcome of a script: per session "open/commit" results, normalised
type outcome []string

func short(err error) string {
	if err == nil {
		return "ok"
	}
	return "err"
}

// runCesium runs the script on a single engine
func runCesium(db *cesium.DB, c chans, sc script) outcome {
	var out outcome
	for si, s := range sc.sessions {
		var keys []cesium.ChannelKey
		for _, g := range s.groups {
			if g != 2 {
				keys = append(keys, c.idx[g], c.dat[g])
			}
		}
		w, err := db.OpenWriter(ctx, cesium.WriterConfig{Channels: keys, Start: telem.TimeStamp(s.start) * telem.SecondTS,
			EnableAutoCommit: new(s.auto), Sync: new(true), ErrOnUnauthorized: new(true),
			ControlSubject: control.Subject{Key: fmt.Sprintf("ref-%d", si)}})
		out = append(out, fmt.Sprintf("s%d open %s", si, short(err)))
		if err != nil {
			continue
		}
		failed := false
		for _, st := range s.steps {
			if st.kind == "commit" {
				_, err := w.Commit()
				out = append(out, fmt.Sprintf("s%d commit %s", si, short(err)))
				failed = failed || err != nil
				continue
			}
			var ps []part
			for _, p := range st.parts {
				if p.group != 2 {
					ps = append(ps, p)
				}
			}
			if len(ps) == 0 {
				continue
			}
			ks, ss, keep := frameOf(c, ps)
			fr := telem.MultiFrame(ks, ss)
			if keep != nil {
				fr = fr.KeepKeys(keep)
			}
			_, err := w.Write(fr)
			failed = failed || err != nil
		}
		err = w.Close()
		out = append(out, fmt.Sprintf("s%d close %s", si, short(err)))
	}
	return out
}

// within runs f and reports whether it returned within the limit (a stuck stream stage
// never returns; the instance is then abandoned)
func within(d time.Duration, f func()) bool {
	done := make(chan struct{})
	go func() { defer close(done); f() }()
	select {
	case <-done:
		return true
	case <-time.After(d):
		return false
	}
}

var opLimit = 30 * time.Second // 120 s on the confirmation run of a hang

func runCluster(nd mock.Node, c chans, sc script) (out outcome) {
	ok := within(opLimit*2, func() { out = runClusterInner(nd, c, sc) })
	if !ok {
		out = append(out, "HUNG")
	}
	return out
}

func runClusterInner(nd mock.Node, c chans, sc script) outcome {
	var out outcome
	for si, s := range sc.sessions {
		keys := channel.KeysFromUint32(c.keysOf(s.groups))
		w, err := nd.Framer.OpenWriter(ctx, framer.WriterConfig{Keys: keys, Start: telem.TimeStamp(s.start) * telem.SecondTS,
			EnableAutoCommit: new(s.auto), Sync: new(true), ErrOnUnauthorized: new(true),
			ControlSubject: control.Subject{Key: fmt.Sprintf("w-%d", si)}})
		out = append(out, fmt.Sprintf("s%d open %s", si, short(err)))
		if err != nil {
			continue
		}
		for _, st := range s.steps {
			if st.kind == "commit" {
				_, err := w.Commit()
				out = append(out, fmt.Sprintf("s%d commit %s", si, short(err)))
				continue
			}
			ks, ss, keep := frameOf(c, st.parts)
			fr := frame.NewMulti(channel.KeysFromUint32(ks), ss)
			if keep != nil {
				fr = fr.KeepKeys(channel.KeysFromUint32(keep))
			}
			if !within(opLimit, func() { _, _ = w.Write(fr) }) {
				return append(out, fmt.Sprintf("s%d write of %v HUNG", si, st.parts))
			}
		}
		err = w.Close()
		out = append(out, fmt.Sprintf("s%d close %s", si, short(err)))
	}
	return out
}

// ---- traversals

type trav struct {
	name   string
	bounds telem.TimeRange
	fwd    bool
	span   telem.TimeSpan
	// rebound: the iterator is opened with bounds and then told SetBounds(*rebound) before
	// the walk (the new bounds must reach every leaseholder's iterator)
	rebound *telem.TimeRange
}

func rb(t telem.TimeRange) *telem.TimeRange { return &t }

func travs() []trav {
	S := func(a, b int) telem.TimeRange {
		return telem.TimeRange{Start: telem.TimeStamp(a) * telem.SecondTS, End: telem.TimeStamp(b) * telem.SecondTS}
	}
	return []trav{
		{"all, forward auto", telem.TimeRangeMax, true, telem.TimeSpan(-1), nil},
		{"all, backward auto", telem.TimeRangeMax, false, telem.TimeSpan(-1), nil},
		{"all, forward 2s", S(0, 40), true, 2 * telem.Second, nil},
		{"all, backward 3s", S(0, 40), false, 3 * telem.Second, nil},
		{"[11s,21s) forward 1s", S(11, 21), true, telem.Second, nil},
		{"[11s,13s) forward max", S(11, 13), true, telem.TimeSpanMax, nil},
		{"opened on all, SetBounds [12s,18s), forward 2s", telem.TimeRangeMax, true, 2 * telem.Second, rb(S(12, 18))},
		{"opened on [11s,13s), SetBounds [0s,40s), backward 3s", S(11, 13), false, 3 * telem.Second, rb(S(0, 40))},
	}
}

type stepper interface {
	setBounds(telem.TimeRange)
	SeekFirst() bool
	SeekLast() bool
	Next(telem.TimeSpan) bool
	Prev(telem.TimeSpan) bool
	Close() error
}

// read runs one traversal and returns per channel the list of per-step sample lists
func readCesium(db *cesium.DB, keys []uint32, t trav) (map[uint32][]string, error) {
	it, err := db.OpenIterator(cesium.IteratorConfig{Channels: keys, Bounds: t.bounds})
	if err != nil {
		return nil, err
	}
	defer func() { _ = it.Close() }()
	return walk(keys, t, cesiumStepper{it}, func() map[uint32]string {
		fr := it.Value()
		m := map[uint32]string{}
		for k, s := range fr.Entries() {
			m[k] += seriesStr(s)
		}
		return m
	}), nil
}

func readCluster(nd mock.Node, keys []uint32, t trav) (map[uint32][]string, error) {
	it, err := nd.Framer.OpenIterator(ctx, framer.IteratorConfig{Keys: channel.KeysFromUint32(keys), Bounds: t.bounds})
	if err != nil {
		return nil, err
	}
	defer func() { _ = it.Close() }()
	return walk(keys, t, clusterStepper{it}, func() map[uint32]string {
		fr := it.Value()
		m := map[uint32]string{}
		for k, s := range fr.Entries() {
			m[uint32(k)] += seriesStr(s)
		}
		return m
	}), nil
}

type cesiumStepper struct{ *cesium.Iterator }

func (c cesiumStepper) setBounds(t telem.TimeRange) { c.Iterator.SetBounds(t) }

type clusterStepper struct{ *framer.Iterator }

func (c clusterStepper) setBounds(t telem.TimeRange) { _ = c.Iterator.SetBounds(t) }

func seriesStr(s telem.Series) string {
	if s.DataType == telem.TimeStampT {
		var sb strings.Builder
		for _, v := range telem.UnmarshalSeries[telem.TimeStamp](s) {
			fmt.Fprintf(&sb, "%ds ", int64(v)/int64(telem.Second))
		}
		return sb.String()
	}
	var sb strings.Builder
	for _, v := range telem.UnmarshalSeries[int64](s) {
		fmt.Fprintf(&sb, "%d ", v)
	}
	return sb.String()
}

func walk(keys []uint32, t trav, it stepper, value func() map[uint32]string) map[uint32][]string {
	out := map[uint32][]string{}
	ok := false
	if t.rebound != nil {
		it.setBounds(*t.rebound)
	}
	if t.fwd {
		ok = it.SeekFirst()
	} else {
		ok = it.SeekLast()
	}
	for n := 0; ok && n < 64; n++ {
		if t.fwd {
			ok = it.Next(t.span)
		} else {
			ok = it.Prev(t.span)
		}
		if !ok {
			break
		}
		v := value()
		for _, k := range keys {
			out[k] = append(out[k], v[k])
		}
	}
	return out
}

// flat concatenates the per-step samples of a channel (frames may be cut differently
// when they are assembled from several leaseholders; the samples may not differ)
func flat(steps []string, fwd bool) string {
	if fwd {
		return strings.Join(steps, "")
	}
	r := append([]string{}, steps...)
	for i, j := 0, len(r)-1; i < j; i, j = i+1, j-1 {
		r[i], r[j] = r[j], r[i]
	}
	return strings.Join(r, "")
}

// ---- one configuration

type config struct {
	nodes, la, lb, gw, gr int
}

func (c config) String() string {
	return fmt.Sprintf("nodes=%d A@%d B@%d writer-gateway=%d", c.nodes, c.la, c.lb, c.gw)
}

type stats struct {
	mu        sync.Mutex
	runs      int
	reads     int
	outcomes  map[string]bool
	refused   int
	missingOK int
}

func mkChannels(nd mock.Node, la, lb int) (chans, error) {
	var c chans
	for g, l := range []int{la, lb} {
		ix := channel.Channel{Name: fmt.Sprintf("t%d", g), DataType: telem.TimeStampT, IsIndex: true, Leaseholder: node.Key(l)}
		if err := nd.Channel.Create(ctx, &ix); err != nil {
			return c, err
		}
		d := channel.Channel{Name: fmt.Sprintf("d%d", g), DataType: telem.Int64T, LocalIndex: ix.LocalKey, Leaseholder: node.Key(l)}
		if err := nd.Channel.Create(ctx, &d); err != nil {
			return c, err
		}
		c.idx[g], c.dat[g] = uint32(ix.Key()), uint32(d.Key())
	}
	fv := channel.Channel{Name: "v", DataType: telem.Int64T, Virtual: true, Leaseholder: node.KeyFree}
	if err := nd.Channel.Create(ctx, &fv); err != nil {
		return c, err
	}
	c.free = uint32(fv.Key())
	return c, nil
}

func waitVisible(cl *mock.Cluster, n int, c chans) bool {
	deadline := time.Now().Add(90 * time.Second)
	want := channel.KeysFromUint32([]uint32{c.idx[0], c.dat[0], c.idx[1], c.dat[1], c.free})
	for {
		all := true
		for i := 1; i <= n; i++ {
			var out []channel.Channel
			err := cl.Nodes[node.Key(i)].Channel.NewRetrieve().Where(channel.MatchKeys(want...)).Entries(&out).Exec(ctx, nil)
			if err != nil || len(out) != len(want) {
				all = false
			}
		}
		if all {
			return true
		}
		if time.Now().After(deadline) {
			return false
		}
		time.Sleep(2 * time.Millisecond)
	}
}

var (
	slowSkipped   atomic.Int64
	confirmMu     sync.Mutex
	hangConfirmed = map[string]bool{}
)

func runOne(r *vk.Run, st *stats, cf config, sc script) { runOneMode(r, st, cf, sc, false) }

func runOneMode(r *vk.Run, st *stats, cf config, sc script, confirming bool) {
	cl := mock.ProvisionCluster(ctx, cf.nodes)
	hung := false
	defer func() {
		if !hung {
			_ = cl.Close()
		}
	}()
	trace := []string{cf.String(), sc.name}
	report := func(fp, format string, a ...any) {
		v := vk.Violationf(fp, format, a...)
		v.Detail = fmt.Sprintf("configuration: %s; script: %s\n%s", cf, sc.name, v.Detail)
		v.Scenario, v.Trace = "config-script", trace
		r.Report(v)
	}
	c, err := mkChannels(cl.Nodes[1], cf.la, cf.lb)
	if err != nil {
		r.HarnessError("create channels: %v", err)
		return
	}
	if !waitVisible(cl, cf.nodes, c) {
		slowSkipped.Add(1) // gossip too slow on a loaded machine: this run decides nothing
		return
	}
	// reference: one cesium engine with the same (non-virtual) channels
	ref, err := cesium.Open(ctx, "", cesium.WithFS(xfs.NewMem()))
	if err != nil {
		r.HarnessError("reference engine: %v", err)
		return
	}
	defer func() { _ = ref.Close() }()
	for g := 0; g < 2; g++ {
		if err := ref.CreateChannel(ctx,
			cesium.Channel{Key: c.idx[g], Name: fmt.Sprintf("t%d", g), DataType: telem.TimeStampT, IsIndex: true},
			cesium.Channel{Key: c.dat[g], Name: fmt.Sprintf("d%d", g), DataType: telem.Int64T, Index: c.idx[g]}); err != nil {
			r.HarnessError("reference channels: %v", err)
			return
		}
	}
	want := runCesium(ref, c, sc)
	got := runCluster(cl.Nodes[node.Key(cf.gw)], c, sc)
	if len(got) > 0 && strings.Contains(got[len(got)-1], "HUNG") {
		hung = true
		// which session hung, and did the single-node store refuse to open it?
		ctxt := "other"
		last := strings.Fields(got[len(got)-1])
		for _, e := range want {
			if len(last) > 0 && e == last[0]+" open err" {
				ctxt = "after-an-open-the-single-node-store-refuses"
			}
		}
		confirmMu.Lock()
		known := hangConfirmed[ctxt]
		confirmMu.Unlock()
		if !confirming && !known {
			// a call that does not return within the limit is reported only if it does not return
			// on a dedicated second run either (one at a time, four times the limit)
			confirmMu.Lock()
			old := opLimit
			opLimit = 120 * time.Second
			confirmMu.Unlock()
			runOneMode(r, st, cf, sc, true)
			confirmMu.Lock()
			opLimit = old
			confirmMu.Unlock()
			return
		}
		confirmMu.Lock()
		hangConfirmed[ctxt] = true
		confirmMu.Unlock()
		report("writer-operation-never-returns:"+ctxt, "a writer operation did not return within %v\n single-node store: %v\n cluster:           %v", opLimit, want, got)
		return
	}
	st.mu.Lock()
	st.runs++
	st.outcomes[strings.Join(want, ";")] = true
	st.mu.Unlock()
	// acknowledgements: a commit the single-node store refuses must not be acknowledged by
	// the cluster (the k-th commit of a session is matched by label; where a conflict
	// surfaces - at open or at commit - is not part of the property)
	label := func(o outcome) map[string]string {
		m, n := map[string]string{}, map[string]int{}
		for _, e := range o {
			f := strings.Fields(e)
			if len(f) == 3 && f[1] == "commit" {
				n[f[0]]++
				m[fmt.Sprintf("%s commit #%d", f[0], n[f[0]])] = f[2]
			}
			if len(f) == 3 && f[1] == "open" {
				m[f[0]+" open"] = f[2]
			}
		}
		return m
	}
	wl, gl := label(want), label(got)
	for k, g := range gl {
		if !strings.Contains(k, "commit") || g != "ok" {
			continue
		}
		sess := strings.Fields(k)[0]
		if w, ok := wl[k]; (ok && w != "ok") || (!ok && wl[sess+" open"] == "err") {
			report("commit-acknowledged-though-a-leaseholder-refused", "%s acknowledged by the cluster\nsingle-node store: %v\ncluster:           %v", k, want, got)
			return
		}
	}
	for k, w := range wl {
		if strings.Contains(k, "commit") && w == "ok" && gl[k] != "ok" {
			report("commit-refused-though-single-node-store-accepts", "%s\nsingle-node store: %v\ncluster:           %v", k, want, got)
			return
		}
	}
	data := []uint32{c.idx[0], c.dat[0], c.idx[1], c.dat[1]}
	// A commit the engine refuses may have been applied to some of the session's channels
	// and not to others, in an order the engine does not fix (that is C02/C05 territory):
	// what such a session leaves behind is not compared.
	for k, w := range wl {
		if strings.Contains(k, "commit") && w == "err" {
			goto unknown
		}
	}
	// each leaseholder's own engine holds exactly its channels' samples
	for g, l := range []int{cf.la, cf.lb} {
		keys := []uint32{c.idx[g], c.dat[g]}
		t := travs()[0]
		w, _ := readCesium(ref, keys, t)
		have, err := readCesium(cl.Nodes[node.Key(l)].Storage.TS, keys, t)
		if err != nil {
			report("leaseholder-engine-unreadable", "group %d on node %d: %v", g, l, err)
			return
		}
		for _, k := range keys {
			if flat(w[k], true) != flat(have[k], true) {
				fp := "leaseholder-engine-differs"
				for _, e := range want {
					if strings.HasSuffix(e, "open err") {
						fp = "leaseholder-engine-differs:session-the-single-node-store-refuses-to-open-partly-stored"
					}
				}
				report(fp, "group %d channel %d: the engine of leaseholder %d holds [%s], the single-node store [%s]", g, k, l, flat(have[k], true), flat(w[k], true))
				return
			}
		}
		for o := 1; o <= cf.nodes; o++ {
			if o == l {
				continue
			}
			if _, err := cl.Nodes[node.Key(o)].Storage.TS.RetrieveChannel(ctx, c.dat[g]); err == nil {
				report("channel-stored-on-non-leaseholder", "node %d holds channel %d leased to node %d", o, c.dat[g], l)
				return
			}
		}
	}
	// location transparency of reads
	for gr := 1; gr <= cf.nodes; gr++ {
		for _, keys := range [][]uint32{data, {c.idx[0], c.dat[0]}, {c.dat[1], c.idx[1]}, {c.dat[0], c.dat[1]}} {
			for _, t := range travs() {
				w, err := readCesium(ref, keys, t)
				if err != nil {
					r.HarnessError("reference read: %v", err)
					return
				}
				have, err := readCluster(cl.Nodes[node.Key(gr)], keys, t)
				if err != nil {
					report("iterator-open-fails", "iterator gateway %d, keys %v: %v", gr, keys, err)
					return
				}
				st.mu.Lock()
				st.reads++
				st.mu.Unlock()
				for _, k := range keys {
					a, b := flat(w[k], t.fwd), flat(have[k], t.fwd)
					if a != b {
						report("read-differs-from-single-node-store:"+strings.Fields(t.name)[0],
							"iterator gateway %d, keys %v, traversal %q, channel %d:\n single-node store: [%s]\n cluster:           [%s]", gr, keys, t.name, k, a, b)
						return
					}
					if t.span > 0 && t.span != telem.TimeSpanMax && strings.Join(w[k], "|") != strings.Join(have[k], "|") {
						report("read-steps-differ-from-single-node-store",
							"iterator gateway %d, keys %v, traversal %q, channel %d:\n single-node store steps: %q\n cluster steps:           %q", gr, keys, t.name, k, w[k], have[k])
						return
					}
				}
			}
		}
	}
unknown:
	// unknown channels are refused at open, through every gateway
	for gw := 1; gw <= cf.nodes; gw++ {
		for _, bad := range []uint32{uint32(channel.NewKey(node.Key(cf.la), 900)), uint32(channel.NewKey(node.Key(cf.nodes), 901)), uint32(channel.NewKey(node.KeyFree, 902))} {
			for _, keys := range [][]uint32{{bad}, {c.idx[0], c.dat[0], bad}} {
				w, err := cl.Nodes[node.Key(gw)].Framer.OpenWriter(ctx, framer.WriterConfig{Keys: channel.KeysFromUint32(keys), Start: 100 * telem.SecondTS,
					ControlSubject: control.Subject{Key: "bad"}, Sync: new(true)})
				if err == nil {
					_ = w.Close()
					report("writer-opens-on-unknown-channel", "gateway %d opened a writer on keys %v (key %d does not exist)", gw, keys, bad)
					return
				}
				it, err := cl.Nodes[node.Key(gw)].Framer.OpenIterator(ctx, framer.IteratorConfig{Keys: channel.KeysFromUint32(keys), Bounds: telem.TimeRangeMax})
				if err == nil {
					_ = it.Close()
					report("iterator-opens-on-unknown-channel", "gateway %d opened an iterator on keys %v (key %d does not exist)", gw, keys, bad)
					return
				}
				st.mu.Lock()
				st.missingOK++
				st.mu.Unlock()
			}
		}
	}
}

func configs(maxNodes int) []config {
	var out []config
	for n := 1; n <= maxNodes; n++ {
		for la := 1; la <= n; la++ {
			for lb := 1; lb <= n; lb++ {
				for gw := 1; gw <= n; gw++ {
					out = append(out, config{nodes: n, la: la, lb: lb, gw: gw})
				}
			}
		}
	}
	return out
}

func main() {
	gomega.RegisterFailHandler(func(m string, _ ...int) { panic("gomega: " + m) })
	gomega.SetDefaultEventuallyTimeout(120 * time.Second)
	gomega.SetDefaultEventuallyPollingInterval(5 * time.Millisecond)
	r := vk.New("C07", "exploration")
	// this harness bounds every call of the code under test with its own limits (and confirms
	// a miss on a dedicated re-run), so the supervisor's stall watchdog only has to see that
	// the process is alive
	go func() {
		for {
			vk.TouchSlots()
			time.Sleep(5 * time.Second)
		}
	}()
	maxNodes := 3
	cfs := configs(maxNodes)
	scs := gen()
	st := &stats{outcomes: map[string]bool{}}
	if r.Replay != "" {
		v, err := vk.LoadReplay(r.Replay)
		if err != nil {
			fmt.Fprintln(os.Stderr, err)
			os.Exit(2)
		}
		for _, cf := range cfs {
			for _, sc := range scs {
				if len(v.Trace) == 2 && cf.String() == v.Trace[0] && sc.name == v.Trace[1] {
					vk.ReplayRan()
					runOne(r, st, cf, sc)
				}
			}
		}
		r.Finish()
	}
	type job struct {
		cf config
		sc script
	}
	jobs := make(chan job)
	var wg sync.WaitGroup
	skipped := 0
	var smu sync.Mutex
	for i := 0; i < 8; i++ {
		wg.Add(1)
		go func(slot int) {
			defer wg.Done()
			for j := range jobs {
				if time.Now().After(r.Deadline()) {
					smu.Lock()
					skipped++
					smu.Unlock()
					continue
				}
				vk.Inflight(slot, "config-script", []string{j.cf.String(), j.sc.name})
				func() {
					defer func() {
						if p := recover(); p != nil {
							v := vk.Violationf("panic:"+fmt.Sprint(p)[:min(60, len(fmt.Sprint(p)))], "panic: %v", p)
							v.Scenario, v.Trace = "config-script", []string{j.cf.String(), j.sc.name}
							r.Report(v)
						}
					}()
					runOne(r, st, j.cf, j.sc)
				}()
				vk.InflightIdle(slot)
			}
		}(i)
	}
	// quick: 1-2 node configurations in full, 3-node ones for the scripts touching both groups
	for _, cf := range cfs {
		for si, sc := range scs {
			if r.Quick() && cf.nodes == 3 && !(si == 4 || si == 6 || si == 10 || si == 13 || si == 15) {
				continue
			}
			jobs <- job{cf, sc}
		}
	}
	close(jobs)
	wg.Wait()
	var oc []string
	for k := range st.outcomes {
		oc = append(oc, k)
	}
	sort.Strings(oc)
	r.Set("evaluations", st.runs)
	r.Set("reads_compared", st.reads)
	r.Set("unknown_channel_opens_refused", st.missingOK)
	r.Set("distinct_nontrivial", len(oc))
	r.Set("runs_skipped_for_slow_gossip", int(slowSkipped.Load()))
	r.Set("exhaustive", skipped == 0 && slowSkipped.Load() == 0)
	r.Set("configurations", len(cfs))
	r.Set("scripts", len(scs))
	r.Set("rule", "configurations: nodes 1-3 x leaseholder of group A x leaseholder of group B x writer gateway (free virtual channel always present), iterators through every node; scripts: gen() (16 write scripts: one/two sessions, one or both groups, frames of one group / mixed / mixed with the free channel, explicit and auto commit, uncommitted tail, later / back-filling / overlapping second session, a session running into committed data at commit time, frames with entries filtered out by KeepKeys); per run: acknowledgement pattern vs a single cesium engine, every leaseholder's engine vs that engine, 4 key sets x 6 traversals through every node vs that engine, opens on 3 unknown keys through every gateway. distinct_nontrivial = distinct acknowledgement patterns")
	for i := 0; i < len(scs); i += 4 {
		r.Sample(map[string]string{"script": scs[i].name})
	}
	r.Assume("in-memory cluster of core/pkg/distribution/mock (real aspen, real cesium engines, in-memory transports); the single-node store of the statement is a real cesium engine on a memory file system given the same script; timing between the cluster's stream stages is whatever the Go scheduler produces (schedules are not enumerated for this property)")
	fmt.Printf("C07: runs=%d reads=%d skipped=%d ack-patterns=%d\n", st.runs, st.reads, skipped, len(oc))
	r.Finish()
}
