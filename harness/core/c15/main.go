// C15 — channel keys are unique and metadata always matches the storage engines.
//
// Explicit-state BFS (seqx) whose transition function is the real channel.Service of every
// node of an in-memory cluster (core/pkg/distribution/mock: real aspen gossip, real cesium
// engines, in-memory transports). A state is the op sequence reaching it; every successor
// is built on a fresh cluster. Ops: single and batched creates of every channel kind
// through any gateway for any leaseholder with the retrieve-if-exists / overwrite options,
// batches that fail in the middle, renames, single and batched deletes; executed either
// directly or inside a gorp transaction committed on success. After every op the cross
// store invariants are evaluated on every node (see check()).
package main

import (
	"context"
	"errors"
	"fmt"
	"os"
	"path/filepath"
	"sort"
	"strings"
	"sync"
	"sync/atomic"
	"time"

	"github.com/onsi/gomega"
	"github.com/synnaxlabs/aspen"
	aspentransmock "github.com/synnaxlabs/aspen/transport/mock"
	"github.com/synnaxlabs/synnax/pkg/distribution"
	"github.com/synnaxlabs/synnax/pkg/distribution/channel"
	"github.com/synnaxlabs/synnax/pkg/distribution/framer"
	"github.com/synnaxlabs/synnax/pkg/distribution/framer/deleter"
	"github.com/synnaxlabs/synnax/pkg/distribution/framer/iterator"
	"github.com/synnaxlabs/synnax/pkg/distribution/framer/relay"
	"github.com/synnaxlabs/synnax/pkg/distribution/framer/writer"
	"github.com/synnaxlabs/synnax/pkg/distribution/mock"
	"github.com/synnaxlabs/synnax/pkg/distribution/node"
	tmock "github.com/synnaxlabs/synnax/pkg/distribution/transport/mock"
	"github.com/synnaxlabs/synnax/pkg/storage"
	"github.com/synnaxlabs/synnax/pkg/storage/ts"
	"github.com/synnaxlabs/x/address"
	"github.com/synnaxlabs/x/control"
	"github.com/synnaxlabs/x/telem"
	xtypes "github.com/synnaxlabs/x/types"
	"verifkit/seqx"
	"verifkit/vk"
)

var ctx = context.Background()

type scenario struct {
	name  string
	nodes int
	tx    bool
	depth int
	seed  []string // ops applied before exploration starts
	ops   string   // alphabet selector
	limit int      // channel limit enforced by the overflow check (0 = none)
	disk  bool     // one node on a real directory whose services can be restarted
}

type sys struct {
	sc       scenario
	c        *mock.Cluster
	single   mock.Node // disk scenarios: the one node
	dir      string
	restarts int
	refs     []channel.Key        // keys in order of first issue
	issued   map[channel.Key]bool // every key a create ever returned as new
	deleted  map[channel.Key]bool // keys whose delete succeeded
	lastFail bool
	lastOp   string // kind (+ option) of the last op
	lastErr  string // class of the last op's error
	hist     []string
	stuck    bool   // a wait for convergence timed out on this instance
	confirm  bool   // a confirmation instance: generous convergence limit, runs one history
	stale    string // name lookup that kept failing
	poisoned bool
}

var inconclusive atomic.Int64

type pend struct {
	sc   scenario
	hist []string
}

var (
	pendMu  sync.Mutex
	pending []pend
)

// confirmPending re-runs, one at a time and after all explorers have finished, every
// history whose nodes did not agree within the limit. Only a history that fails to
// converge again - on an otherwise idle process, with a 90 s limit - is reported.
func confirmPending(r *vk.Run) {
	seen := map[string]bool{}
	for _, p := range pending {
		key := p.sc.name + "|" + strings.Join(p.hist, ";")
		if seen[key] {
			continue
		}
		seen[key] = true
		if len(seen) > 12 {
			inconclusive.Add(1)
			continue
		}
		c, err := newSysMode(p.sc, true)
		if err != nil {
			inconclusive.Add(1)
			continue
		}
		cs := c.(*sys)
		var verr error
		for _, op := range p.hist {
			if _, verr = cs.Apply(op); verr != nil {
				break
			}
		}
		if verr == nil {
			verr = cs.Check()
		}
		cs.Close()
		var v *vk.Violation
		if errors.As(verr, &v) {
			v.Scenario, v.Trace = p.sc.name, p.hist
			// it failed twice in this process, which has opened and closed thousands of
			// clusters by now: what is reported must also fail in a fresh process
			if !r.FreshReplay(v, 2) {
				r.Unconfirmed(v.Fingerprint + " after " + strings.Join(p.hist, "; ") + ": " + v.Detail)
				inconclusive.Add(1)
				continue
			}
			r.Report(v)
		} else {
			inconclusive.Add(1)
		}
	}
}

func newSys(sc scenario) (seqx.Sys, error) { return newSysMode(sc, false) }

func newSysMode(sc scenario, confirm bool) (seqx.Sys, error) {
	s := &sys{sc: sc, confirm: confirm, issued: map[channel.Key]bool{}, deleted: map[channel.Key]bool{}}
	if sc.disk {
		if err := os.MkdirAll(vk.Root()+"/build/tmp", 0o755); err != nil {
			return nil, err
		}
		dir, err := os.MkdirTemp(vk.Root()+"/build/tmp", "c15-node-")
		if err != nil {
			return nil, err
		}
		s.dir = dir
		if err := s.openDisk(); err != nil {
			_ = os.RemoveAll(dir)
			return nil, err
		}
	} else if sc.limit > 0 {
		lim := sc.limit
		s.c = mock.ProvisionCluster(ctx, sc.nodes, distribution.LayerConfig{TestingIntOverflowCheck: func(c xtypes.Uint20) error {
			if int(c) > lim {
				return errors.New("channel limit reached")
			}
			return nil
		}})
	} else {
		s.c = mock.ProvisionCluster(ctx, sc.nodes)
	}
	for _, op := range sc.seed {
		if _, err := s.Apply(op); err != nil {
			return nil, fmt.Errorf("seed op %q: %w", op, err)
		}
	}
	return s, nil
}

func (s *sys) Close() {
	if s.sc.disk {
		if !s.poisoned {
			_ = s.closeDisk()
		}
		_ = os.RemoveAll(s.dir)
		return
	}
	if s.poisoned {
		return
	}
	_ = s.c.Close()
}

func (s *sys) nd(k int) mock.Node {
	if s.sc.disk {
		return s.single
	}
	return s.c.Nodes[node.Key(k)]
}

type frameTransport struct {
	iter    iterator.Transport
	writer  writer.Transport
	relay   relay.Transport
	deleter deleter.Transport
}

func (m frameTransport) Iterator() iterator.Transport { return m.iter }
func (m frameTransport) Writer() writer.Transport     { return m.writer }
func (m frameTransport) Relay() relay.Transport       { return m.relay }
func (m frameTransport) Deleter() deleter.Transport   { return m.deleter }

// openDisk starts the storage and distribution services of a single-node cluster on the
// directory s.dir; calling it again after closeDisk is a restart of the node's services.
func (s *sys) openDisk() error {
	store, err := storage.OpenLayer(ctx, storage.LayerConfig{InMemory: new(false), Dirname: s.dir})
	if err != nil {
		return fmt.Errorf("open storage: %w", err)
	}
	addr := address.NewLocalFactory(0).Next()
	dist, err := distribution.OpenLayer(ctx, distribution.LayerConfig{
		Storage: store,
		FrameTransport: frameTransport{
			iter:    tmock.NewIteratorNetwork().New(addr, 1),
			writer:  tmock.NewWriterNetwork().New(addr, 1),
			relay:   tmock.NewRelayNetwork().New(addr, 1),
			deleter: tmock.NewDeleterNetwork().New(addr),
		},
		ChannelTransport:     tmock.NewChannelNetwork().New(addr),
		AspenTransport:       aspentransmock.NewNetwork().NewTransport(),
		AdvertiseAddress:     addr,
		AspenOptions:         []aspen.Option{aspen.WithPropagationConfig(aspen.FastPropagationConfig)},
		EnableServiceSignals: new(false),
	})
	if err != nil {
		_ = store.Close()
		return fmt.Errorf("open distribution: %w", err)
	}
	s.single = mock.Node{Layer: dist, Storage: store}
	return nil
}

func (s *sys) closeDisk() error {
	err := s.single.Layer.Close()
	return errors.Join(err, s.single.Storage.Close())
}

// ---- real state readers

type row struct {
	Key     channel.Key
	Name    string
	DT      string
	IsIndex bool
	Index   channel.Key
	Virtual bool
}

func (r row) String() string {
	return fmt.Sprintf("%d/%s/%s/idx=%v/index=%d/virt=%v", r.Key, r.Name, r.DT, r.IsIndex, r.Index, r.Virtual)
}

// metadata rows known to node n
func (s *sys) meta(n int) ([]channel.Channel, error) {
	var out []channel.Channel
	err := s.nd(n).Channel.NewRetrieve().Entries(&out).Exec(ctx, nil)
	sort.Slice(out, func(i, j int) bool { return out[i].Key() < out[j].Key() })
	return out, err
}

func metaRow(c channel.Channel) row {
	return row{Key: c.Key(), Name: c.Name, DT: string(c.DataType), IsIndex: c.IsIndex, Index: c.Index(), Virtual: c.Virtual}
}

func (s *sys) maxLocal() int {
	m := 8
	for k := range s.issued {
		if int(k.LocalKey()) > m {
			m = int(k.LocalKey())
		}
	}
	return m + 4
}

// engine rows of node n: every key of the candidate range the engine resolves
func (s *sys) engine(n int) []row {
	var out []row
	db := s.nd(n).Storage.TS
	for _, lease := range []node.Key{node.Key(n), node.KeyFree} {
		for l := 1; l <= s.maxLocal(); l++ {
			k := channel.NewKey(lease, channel.LocalKey(l))
			c, err := db.RetrieveChannel(ctx, ts.ChannelKey(k))
			if err != nil {
				continue
			}
			out = append(out, row{Key: channel.Key(c.Key), Name: c.Name, DT: string(c.DataType), IsIndex: c.IsIndex, Index: channel.Key(c.Index), Virtual: c.Virtual})
		}
	}
	// other leaseholders' keys must never be in this engine
	for o := 1; o <= s.sc.nodes; o++ {
		if o == n {
			continue
		}
		for l := 1; l <= s.maxLocal(); l++ {
			k := channel.NewKey(node.Key(o), channel.LocalKey(l))
			if c, err := db.RetrieveChannel(ctx, ts.ChannelKey(k)); err == nil {
				out = append(out, row{Key: channel.Key(c.Key), Name: c.Name + "@foreign-engine", DT: string(c.DataType)})
			}
		}
	}
	return out
}

// wait until every node's metadata view lists the same channels (gossip is asynchronous)
func (s *sys) converge() (map[int][]channel.Channel, bool) {
	limit := 10 * time.Second
	if s.confirm {
		limit = 90 * time.Second
	}
	deadline := time.Now().Add(limit)
	if s.stuck {
		deadline = time.Now() // already known not to converge: one look
	}
	s.stale = ""
	for {
		views := map[int][]channel.Channel{}
		same := true
		var ref string
		for n := 1; n <= s.sc.nodes; n++ {
			m, _ := s.meta(n)
			views[n] = m
			var sb strings.Builder
			for _, c := range m {
				sb.WriteString(metaRow(c).String() + ";")
			}
			if n == 1 {
				ref = sb.String()
			} else if sb.String() != ref {
				same = false
			}
		}
		if same {
			// name lookups go through an index maintained asynchronously from the table
			for n := 1; n <= s.sc.nodes && same; n++ {
				for _, c := range views[n] {
					var out []channel.Channel
					_ = s.nd(n).Channel.NewRetrieve().Where(channel.MatchNames(c.Name)).Entries(&out).Exec(ctx, nil)
					hit := false
					for _, o := range out {
						hit = hit || o.Key() == c.Key()
					}
					if !hit {
						same = false
						s.stale = fmt.Sprintf("node %d does not find channel %d by its name %q", n, c.Key(), c.Name)
						break
					}
				}
			}
		}
		if !same && time.Now().After(deadline) {
			s.stuck = true
		}
		if same || time.Now().After(deadline) {
			if !same && os.Getenv("C15_DEBUG") != "" {
				fmt.Fprintf(os.Stderr, "NOT CONVERGED after %v: refs=%v deleted=%v\n", s.hist, s.refs, s.deleted)
				for n := 1; n <= s.sc.nodes; n++ {
					var rs []row
					for _, c := range views[n] {
						rs = append(rs, metaRow(c))
					}
					fmt.Fprintf(os.Stderr, "   node %d: %s\n", n, rowsStr(rs))
				}
			}
			return views, same
		}
		time.Sleep(2 * time.Millisecond)
	}
}

func rowsStr(rs []row) string {
	var ss []string
	for _, r := range rs {
		ss = append(ss, r.String())
	}
	return strings.Join(ss, " ")
}

// ---- ops

var names = []string{"a", "b", "c"}

func (s *sys) firstIndexOn(lease int, views []channel.Channel) (channel.Channel, bool) {
	for _, c := range views {
		if c.IsIndex && !c.Virtual && int(c.Leaseholder) == lease && !c.Internal {
			return c, true
		}
	}
	return channel.Channel{}, false
}

func (s *sys) Ops() []string {
	var ops []string
	if s.lastFail && !s.sc.tx {
		return nil // no atomicity is promised without a transaction: not judged, not extended
	}
	n := s.sc.nodes
	gws := []int{1}
	if n >= 2 {
		gws = []int{1, 2}
	}
	leases := []string{"1"}
	if n >= 2 {
		leases = []string{"1", "2"}
	}
	switch s.sc.ops {
	case "kinds":
		for _, g := range gws {
			for _, l := range leases {
				if n >= 2 && g != 1 && l != "1" && l != fmt.Sprint(g) {
					continue
				}
				ops = append(ops, fmt.Sprintf("mk %d %s idx a -", g, l), fmt.Sprintf("mk %d %s dat b -", g, l),
					fmt.Sprintf("mk %d %s vir c -", g, l), fmt.Sprintf("mk %d %s vir a -", g, l))
			}
			ops = append(ops, fmt.Sprintf("mk %d F fvir b -", g), fmt.Sprintf("mk %d F calc c -", g))
		}
	case "options":
		for _, g := range gws {
			l := leases[len(leases)-1]
			ops = append(ops, fmt.Sprintf("mk %d %s vir a -", g, l), fmt.Sprintf("mk %d %s vir a rin", g, l), fmt.Sprintf("mk %d %s vir a ow", g, l),
				fmt.Sprintf("mk %d %s idx a ow", g, l), fmt.Sprintf("mk %d %s idx b rin", g, l), fmt.Sprintf("mk %d %s dat a ow", g, l),
				fmt.Sprintf("mk %d F fvir a ow", g), fmt.Sprintf("mk %d F fvir b rin", g),
				fmt.Sprintf("mkb %d rin-leased", g), fmt.Sprintf("mkb %d rin-free", g), fmt.Sprintf("mk %d F fvir c -", g))
		}
	case "restarts":
		ops = append(ops, "mk 1 1 vir a -", "mk 1 1 idx b -", "mk 1 1 dat c -", "mk 1 F fvir d -", "mkb 1 mixed")
		if s.restarts < 2 {
			ops = append(ops, "restart 1")
		}
	case "pairs":
		// two writer calls staged in one caller-owned transaction, committed together
		for _, g := range gws {
			l := leases[len(leases)-1]
			ops = append(ops, fmt.Sprintf("mk %d %s vir a -", g, l), fmt.Sprintf("mk %d %s vir b -", g, l),
				fmt.Sprintf("txp %d %s create-create", g, l), fmt.Sprintf("txp %d %s delete-create", g, l),
				fmt.Sprintf("txp %d %s two-open-creates", g, l))
			if len(s.refs) > 0 {
				ops = append(ops, fmt.Sprintf("txp %d %s rename-create", g, l), fmt.Sprintf("txp %d %s create-rename", g, l))
			}
		}
	case "limit":
		ops = append(ops, "mk 1 1 idx a -", "mk 1 1 dat b -", "mk 1 1 idx c -", "mk 1 1 dat d -", "mk 1 1 vir e -", "mkb 1 mixed")
	case "batches":
		for _, g := range gws {
			ops = append(ops, fmt.Sprintf("mkb %d mixed", g), fmt.Sprintf("mkb %d dupname", g), fmt.Sprintf("mkb %d badname", g),
				fmt.Sprintf("mkb %d badidx", g), fmt.Sprintf("mkb %d badidx-first", g), fmt.Sprintf("mk %d 1 idx a -", g), fmt.Sprintf("mk %d 1 vir b -", g))
			if n >= 2 {
				ops = append(ops, fmt.Sprintf("mkb %d twolease", g), fmt.Sprintf("mkb %d peerfail", g), fmt.Sprintf("mkb %d gwfail", g))
			}
		}
	}
	for i := range s.refs {
		if i >= 4 {
			break
		}
		for _, g := range gws {
			ops = append(ops, fmt.Sprintf("rm %d %d", g, i))
			if s.sc.ops != "batches" {
				ops = append(ops, fmt.Sprintf("rn %d %d b", g, i), fmt.Sprintf("rn %d %d d", g, i))
			}
		}
	}
	if len(s.refs) >= 2 {
		for _, g := range gws {
			ops = append(ops, fmt.Sprintf("rmm %d 0 1", g), fmt.Sprintf("rmm %d 1 0", g))
			if len(s.refs) >= 3 {
				ops = append(ops, fmt.Sprintf("rmm %d 0 1 2", g), fmt.Sprintf("rmm %d 2 1", g))
			}
			if s.sc.ops != "batches" {
				ops = append(ops, fmt.Sprintf("rnm %d 0 1", g))
			}
		}
	}
	return ops
}

func leaseOf(l string) node.Key {
	if l == "F" {
		return node.KeyFree
	}
	var k int
	fmt.Sscan(l, &k)
	return node.Key(k)
}

func (s *sys) mkChannel(lease string, kind, name string) (channel.Channel, bool) {
	ch := channel.Channel{Name: name, Leaseholder: leaseOf(lease)}
	switch kind {
	case "idx":
		ch.IsIndex, ch.DataType = true, telem.TimeStampT
	case "dat", "str":
		var l int
		fmt.Sscan(lease, &l)
		m, _ := s.meta(l)
		ix, ok := s.firstIndexOn(l, m)
		if !ok {
			return ch, false
		}
		ch.LocalIndex = ix.LocalKey
		ch.DataType = telem.Int64T
		if kind == "str" {
			ch.DataType = telem.StringT
		}
	case "vir":
		ch.Virtual, ch.DataType = true, telem.Float32T
	case "fvir":
		ch.Virtual, ch.DataType = true, telem.Uint8T
	case "calc":
		ch.Virtual, ch.DataType, ch.Expression = true, telem.Float64T, "return 1 + 1"
	}
	return ch, true
}

// run a writer op directly or in a transaction committed on success
func (s *sys) write(g int, f func(w channel.Writer) error) error {
	nd := s.nd(g)
	if !s.sc.tx {
		return f(nd.Channel.Writer)
	}
	tx := nd.DB.OpenTx()
	err := f(nd.Channel.NewWriter(tx))
	if err == nil {
		err = tx.Commit(ctx)
	}
	_ = tx.Close()
	return err
}

func short(err error) string {
	if err == nil {
		return "ok"
	}
	m := err.Error()
	if i := strings.Index(m, "\n"); i >= 0 {
		m = m[:i]
	}
	if len(m) > 60 {
		m = m[:60]
	}
	return "err:" + m
}

func (s *sys) Apply(op string) (obs string, err error) {
	defer func() {
		if r := recover(); r != nil {
			s.poisoned = true
			err = vk.Violationf("panic:"+strings.Fields(op)[0], "%s panicked: %v", op, r)
		}
	}()
	s.hist = append(s.hist, op)
	f := strings.Fields(op)
	var g int
	fmt.Sscan(f[1], &g)
	before, _ := s.converge()
	liveBefore := map[channel.Key]channel.Channel{}
	for _, c := range before[1] {
		liveBefore[c.Key()] = c
	}
	s.lastFail = false
	switch f[0] {
	case "mk", "mkb":
		s.lastOp = "create"
		if f[0] == "mk" && f[5] == "ow" {
			s.lastOp = "create-overwrite"
		}
	case "rn", "rnm":
		s.lastOp = "rename"
	case "txp":
		s.lastOp = "pair"
	case "restart":
		s.lastOp = "restart"
	default:
		s.lastOp = "delete"
	}
	switch f[0] {
	case "mk", "mkb":
		var chs []channel.Channel
		var opts []channel.CreateOption
		if f[0] == "mk" {
			ch, ok := s.mkChannel(f[2], f[3], f[4])
			if !ok {
				return "no-index", nil
			}
			chs = []channel.Channel{ch}
			switch f[5] {
			case "rin":
				opts = append(opts, channel.RetrieveIfNameExists())
			case "ow":
				opts = append(opts, channel.OverwriteIfNameExistsAndDifferentProperties())
			}
		} else {
			other := fmt.Sprint(3 - g)
			me := fmt.Sprint(g)
			v := func(l, name string) channel.Channel { c, _ := s.mkChannel(l, "vir", name); return c }
			bad := func(l, name string) channel.Channel {
				return channel.Channel{Name: name, Leaseholder: leaseOf(l), DataType: telem.Int64T, LocalIndex: 900}
			}
			switch f[2] {
			case "rin-leased":
				l := fmt.Sprint(s.sc.nodes)
				chs = []channel.Channel{v(l, "a"), v(l, "x"), v(l, "b"), v(l, "y")}
				opts = append(opts, channel.RetrieveIfNameExists())
			case "rin-free":
				fa, _ := s.mkChannel("F", "fvir", "a")
				fx, _ := s.mkChannel("F", "fvir", "x")
				fb, _ := s.mkChannel("F", "fvir", "b")
				fy, _ := s.mkChannel("F", "fvir", "y")
				chs = []channel.Channel{fa, fx, fb, fy}
				opts = append(opts, channel.RetrieveIfNameExists())
			case "mixed":
				ix, _ := s.mkChannel(me, "idx", "x")
				fv, _ := s.mkChannel("F", "fvir", "z")
				chs = []channel.Channel{ix, v(me, "y"), fv}
			case "dupname":
				chs = []channel.Channel{v(me, "x"), v(me, "x")}
			case "badname":
				chs = []channel.Channel{v(me, "x"), v(me, "1bad!")}
			case "badidx":
				chs = []channel.Channel{v(me, "x"), bad(me, "y")}
			case "badidx-first":
				chs = []channel.Channel{bad(me, "y"), v(me, "x")}
			case "twolease":
				chs = []channel.Channel{v(me, "x"), v(other, "y")}
			case "peerfail":
				chs = []channel.Channel{v(me, "x"), bad(other, "y")}
			case "gwfail":
				chs = []channel.Channel{bad(me, "y"), v(other, "x")}
			}
		}
		req := append([]channel.Channel{}, chs...)
		err := s.write(g, func(w channel.Writer) error { return w.CreateMany(ctx, &chs, opts...) })
		obs = short(err)
		if err != nil {
			s.lastFail, s.lastErr = true, errClass(err)
			break
		}
		views, same := s.converge()
		if !same {
			s.noteIssued(chs, liveBefore)
			return obs + ":not-converged", nil // judged by Check (with confirmation)
		}
		live := map[channel.Key]channel.Channel{}
		for _, c := range views[1] {
			live[c.Key()] = c
		}
		seen := map[channel.Key]bool{}
		for _, c := range chs {
			k := c.Key()
			if seen[k] {
				return obs, vk.Violationf("create-returns-key-twice", "%s returned key %d for two channels of one request: %v", op, k, chs)
			}
			seen[k] = true
			if k.Leaseholder() != c.Leaseholder {
				return obs, vk.Violationf("key-does-not-embed-leaseholder", "%s: key %d of %v", op, k, c)
			}
			if prev, was := liveBefore[k]; was {
				if len(opts) > 0 && prev.Name == c.Name {
					continue // retrieve-if-exists / overwrite returned the existing channel of that name
				}
				return obs, vk.Violationf("key-reused", "%s returned key %d for %q, but that key belongs to live channel %q", op, k, c.Name, prev.Name)
			}
			if s.issued[k] {
				return obs, vk.Violationf("key-reused", "%s returned key %d, which an earlier create had already issued (deleted=%v)", op, k, s.deleted[k])
			}
			s.issued[k] = true
			s.refs = append(s.refs, k)
			lc, ok := live[k]
			if !ok {
				return obs, vk.Violationf("created-channel-not-retrievable", "%s succeeded and returned %v but the key is not in the metadata", op, c)
			}
			if lc.Name != c.Name || lc.DataType != c.DataType || lc.Virtual != c.Virtual || lc.IsIndex != c.IsIndex {
				return obs, vk.Violationf("created-channel-differs", "%s returned %+v, metadata holds %+v", op, c, lc)
			}
		}
		// every requested (non-derived) name is now live exactly once
		for _, rq := range req {
			cnt := 0
			for _, c := range live {
				if c.Name == rq.Name {
					cnt++
				}
			}
			if cnt != 1 {
				return obs, vk.Violationf("name-count-after-create", "%s succeeded; %d live channels are named %q", op, cnt, rq.Name)
			}
		}
	case "rn", "rnm":
		var keys []channel.Key
		var nn []string
		if f[0] == "rn" {
			var i int
			fmt.Sscan(f[2], &i)
			keys, nn = []channel.Key{s.refs[i]}, []string{f[3]}
		} else {
			keys, nn = []channel.Key{s.refs[0], s.refs[1]}, []string{"e", "f"}
		}
		err := s.write(g, func(w channel.Writer) error { return w.RenameMany(ctx, keys, nn, false) })
		obs = short(err)
		if err != nil {
			s.lastFail, s.lastErr = true, errClass(err)
			break
		}
		views, same := s.converge()
		if !same {
			return obs + ":not-converged", nil
		}
		for i, k := range keys {
			found := false
			for _, c := range views[1] {
				if c.Key() == k {
					found = true
					if c.Name != nn[i] {
						return obs, vk.Violationf("rename-not-applied", "%s succeeded; metadata name of %d is %q", op, k, c.Name)
					}
				}
			}
			if !found && !s.deleted[k] {
				return obs, vk.Violationf("rename-lost-channel", "%s succeeded; %d is no longer in the metadata", op, k)
			}
			if !found {
				obs += ":renamed-deleted-channel"
			}
		}
	case "restart":
		s.restarts++
		if err := s.closeDisk(); err != nil {
			s.poisoned = true
			return "", vk.Violationf("restart:close-fails", "%s: closing the node's services failed: %v", op, err)
		}
		if err := s.openDisk(); err != nil {
			s.poisoned = true
			return "", vk.Violationf("restart:open-fails", "%s: the node's services do not start on their own directory: %v", op, err)
		}
		obs = "ok"
	case "txp":
		// Both calls see what the other staged: a name taken earlier in the transaction is
		// taken, a name freed earlier in it is free. A refused second call stages nothing; the
		// caller commits what the first call staged.
		nd := s.nd(g)
		tx := nd.DB.OpenTx()
		w := nd.Channel.NewWriter(tx)
		first, _ := s.mkChannel(f[2], "vir", "p")
		second, _ := s.mkChannel(f[2], "vir", "p")
		var target channel.Key // live channel the pair renames or deletes: the most recent one
		for i := len(s.refs) - 1; i >= 0; i-- {
			if _, live := liveBefore[s.refs[i]]; live {
				target = s.refs[i]
				break
			}
		}
		var e1, e2 error
		wantSecond := "refused"
		var created []channel.Channel
		if f[3] == "two-open-creates" {
			// two transactions open at the same time each create a channel named q; each sees
			// the committed state plus its own writes. Whatever is accepted, after both have
			// ended no two channels may carry the name.
			_ = tx.Close()
			txA, txB := nd.DB.OpenTx(), nd.DB.OpenTx()
			qa, _ := s.mkChannel(f[2], "vir", "q")
			qb, _ := s.mkChannel(f[2], "vir", "q")
			ea := nd.Channel.NewWriter(txA).Create(ctx, &qa)
			eb := nd.Channel.NewWriter(txB).Create(ctx, &qb)
			var ca, cb error
			if ea == nil {
				ca = txA.Commit(ctx)
			}
			if eb == nil {
				cb = txB.Commit(ctx)
			}
			_, _ = txA.Close(), txB.Close()
			var made []channel.Channel
			if ea == nil && ca == nil {
				made = append(made, qa)
			}
			if eb == nil && cb == nil {
				made = append(made, qb)
			}
			s.noteIssued(made, liveBefore)
			if len(made) == 2 {
				return "", vk.Violationf("name-given-twice-by-two-open-transactions", "%s: two transactions open at the same time each created a channel named %q and both committed (keys %d and %d)", op, "q", qa.Key(), qb.Key())
			}
			obs = fmt.Sprintf("ok:%d-created", len(made))
			break
		}
		switch f[3] {
		case "create-create":
			if e1 = w.Create(ctx, &first); e1 == nil {
				created = append(created, first)
				if e2 = w.Create(ctx, &second); e2 == nil {
					created = append(created, second)
				}
			}
		case "rename-create":
			if e1 = w.Rename(ctx, target, "p", false); e1 == nil {
				if e2 = w.Create(ctx, &second); e2 == nil {
					created = append(created, second)
				}
			}
		case "create-rename":
			if e1 = w.Create(ctx, &first); e1 == nil {
				created = append(created, first)
				e2 = w.Rename(ctx, target, "p", false)
			}
		case "delete-create":
			// the name freed by the delete is free for the create in the same transaction
			wantSecond = "accepted"
			if target == 0 {
				_ = tx.Close()
				return "no-target", nil
			}
			second.Name = liveBefore[target].Name
			if e1 = w.Delete(ctx, target, false); e1 == nil {
				if e2 = w.Create(ctx, &second); e2 == nil {
					created = append(created, second)
				}
			}
		}
		if e1 != nil {
			_ = tx.Close()
			obs = "first:" + short(e1)
			s.lastFail, s.lastErr = true, errClass(e1)
			break
		}
		if wantSecond == "refused" && e2 == nil {
			_ = tx.Close()
			return "", vk.Violationf("name-taken-earlier-in-the-transaction-accepted", "%s: the second call of the transaction was accepted although the first one had given the name %q to another channel", op, "p")
		}
		if wantSecond == "accepted" && e2 != nil && f[2] != fmt.Sprint(g) {
			// The channel is leased to another node: that node runs its part in a transaction
			// of its own, which the gateway's open transaction cannot show anything to. Whether
			// the name counts as free there is not promised; the refused create staged nothing.
			wantSecond = "either"
		}
		if wantSecond == "accepted" && e2 != nil {
			_ = tx.Close()
			return "", vk.Violationf("name-freed-earlier-in-the-transaction-refused", "%s: the create was refused (%v) although the delete staged earlier in the same transaction had freed the name", op, e2)
		}
		if err := tx.Commit(ctx); err != nil {
			_ = tx.Close()
			obs = "commit:" + short(err)
			s.lastFail, s.lastErr = true, errClass(err)
			break
		}
		_ = tx.Close()
		obs = "ok:" + short(e2)
		if f[3] == "delete-create" {
			s.deleted[target] = true
		}
		s.noteIssued(created, liveBefore)
	case "rm", "rmm":
		var keys []channel.Key
		for _, a := range f[2:] {
			var i int
			fmt.Sscan(a, &i)
			keys = append(keys, s.refs[i])
		}
		err := s.write(g, func(w channel.Writer) error { return w.DeleteMany(ctx, keys, false) })
		obs = short(err)
		if err != nil {
			s.lastFail, s.lastErr = true, errClass(err)
			break
		}
		for _, k := range keys {
			s.deleted[k] = true
		}
	}
	return obs, nil
}

// noteIssued records the keys a successful create returned without judging them (used when
// the views did not converge in time and the judgement is left to Check).
func (s *sys) noteIssued(chs []channel.Channel, liveBefore map[channel.Key]channel.Channel) {
	for _, c := range chs {
		k := c.Key()
		if _, was := liveBefore[k]; was || s.issued[k] {
			continue
		}
		s.issued[k] = true
		s.refs = append(s.refs, k)
	}
}

// ---- invariants

func (s *sys) fpPrefix() string {
	if !s.lastFail && s.lastOp == "create-overwrite" && s.sc.nodes > 1 {
		return "after-create-overwrite-in-a-cluster:"
	}
	if s.lastFail {
		return "after-failed-request-in-aborted-tx:" + s.lastOp + ":" + s.lastErr + ":"
	}
	return ""
}

// errClass names why a request failed (part of the fingerprint of what it left behind)
func errClass(err error) string {
	m := err.Error()
	for _, kv := range [][2]string{
		{"limit", "limit-reached"},
		{"indexes data", "index-in-use"},
		{"does not exist", "missing-index"},
		{"already exists", "name-exists"},
		{"duplicate channel name", "duplicate-name-in-request"},
		{"invalid characters", "invalid-name"},
		{"not found", "not-found"},
	} {
		if strings.Contains(m, kv[0]) {
			return kv[1]
		}
	}
	return "other"
}

func (s *sys) Check() error {
	if s.lastFail && !s.sc.tx {
		return nil
	}
	views, same := s.converge()
	if !same && !s.confirm {
		// judged after the exploration, alone on the machine's cores (see confirmPending)
		pendMu.Lock()
		pending = append(pending, pend{s.sc, append([]string{}, s.hist[len(s.sc.seed):]...)})
		pendMu.Unlock()
		return nil
	}
	if !same && s.stale != "" {
		return vk.Violationf(s.fpPrefix()+"name-lookup-misses-channel:after-"+s.lastOp,
			"all nodes list the same channels, but %s on a dedicated confirmation run with a 90 s limit as well (the name index of that node was not updated)", s.stale)
	}
	if !same {
		var sb strings.Builder
		for n := 1; n <= s.sc.nodes; n++ {
			var rs []row
			for _, c := range views[n] {
				rs = append(rs, metaRow(c))
			}
			fmt.Fprintf(&sb, "\n node %d: %s", n, rowsStr(rs))
		}
		return vk.Violationf(s.fpPrefix()+"metadata-views-differ", "the nodes keep listing different channels:%s", sb.String())
	}
	all := views[1]
	names := map[string]channel.Key{}
	for _, c := range all {
		if c.Key().Leaseholder() != c.Leaseholder {
			return vk.Violationf("key-does-not-embed-leaseholder", "%+v", c)
		}
		if o, dup := names[c.Name]; dup {
			kind := ""
			if strings.HasSuffix(c.Name, "_time") {
				kind = ":derived-index-of-calculated-channel"
			}
			return vk.Violationf(s.fpPrefix()+"duplicate-name"+kind, "channels %d and %d are both named %q", o, c.Key(), c.Name)
		}
		names[c.Name] = c.Key()
		if err := channel.ValidateName(c.Name); err != nil {
			return vk.Violationf(s.fpPrefix()+"invalid-name-stored", "%d: %v", c.Key(), err)
		}
		if s.deleted[c.Key()] {
			return vk.Violationf("deleted-channel-in-metadata", "channel %d was deleted successfully and is still listed: %+v", c.Key(), c)
		}
	}
	for n := 1; n <= s.sc.nodes; n++ {
		var m []row
		for _, c := range all {
			if int(c.Leaseholder) == n {
				m = append(m, metaRow(c))
			}
		}
		e := s.engine(n)
		sort.Slice(e, func(i, j int) bool { return e[i].Key < e[j].Key })
		if rowsStr(m) != rowsStr(e) {
			kind := classify(m, e)
			if s.lastFail {
				if strings.Contains(kind, "only-in-engine") {
					kind = "engine-has-extra"
				} else if strings.Contains(kind, "only-in-metadata") {
					kind = "metadata-has-extra"
				}
			}
			return vk.Violationf(s.fpPrefix()+"metadata-engine-mismatch:"+kind,
				"node %d: metadata lists for this leaseholder\n   %s\n its engine holds\n   %s", n, rowsStr(m), rowsStr(e))
		}
	}
	// deleted channels are gone at both layers, through every node
	for k := range s.deleted {
		for n := 1; n <= s.sc.nodes; n++ {
			var out []channel.Channel
			err := s.nd(n).Channel.NewRetrieve().Where(channel.MatchKeys(k)).Entries(&out).Exec(ctx, nil)
			if err == nil && len(out) > 0 {
				return vk.Violationf("deleted-channel-retrievable", "node %d still retrieves deleted channel %d", n, k)
			}
			w, err := s.nd(n).Framer.OpenWriter(ctx, framer.WriterConfig{Keys: channel.Keys{k}, Start: telem.TimeStamp(10 * telem.Second),
				ControlSubject: control.Subject{Key: "verif"}})
			if err == nil {
				_ = w.Close()
				return vk.Violationf("deleted-channel-writable", "node %d opened a writer on deleted channel %d", n, k)
			}
			it, err := s.nd(n).Framer.OpenIterator(ctx, framer.IteratorConfig{Keys: channel.Keys{k}, Bounds: telem.TimeRangeMax})
			if err == nil {
				_ = it.Close()
				return vk.Violationf("deleted-channel-readable", "node %d opened an iterator on deleted channel %d", n, k)
			}
		}
		if !k.Free() {
			db := s.nd(int(k.Leaseholder())).Storage.TS
			if _, err := db.RetrieveChannel(ctx, ts.ChannelKey(k)); err == nil {
				return vk.Violationf("deleted-channel-in-engine", "the engine of node %d still holds deleted channel %d", k.Leaseholder(), k)
			}
		}
	}
	return nil
}

func classify(m, e []row) string {
	mk, ek := map[channel.Key]row{}, map[channel.Key]row{}
	for _, r := range m {
		mk[r.Key] = r
	}
	for _, r := range e {
		ek[r.Key] = r
	}
	for k, r := range ek {
		if _, ok := mk[k]; !ok {
			if r.Virtual {
				return "virtual-channel-only-in-engine"
			}
			return "channel-only-in-engine"
		}
	}
	for k := range mk {
		if _, ok := ek[k]; !ok {
			return "channel-only-in-metadata"
		}
	}
	for k, r := range mk {
		o := ek[k]
		switch {
		case r.Name != o.Name:
			return "name-differs"
		case r.Index != o.Index:
			return "index-differs"
		}
	}
	return "properties-differ"
}

func (s *sys) Canon() string {
	views, same := s.converge()
	var sb strings.Builder
	if !same {
		// part of the real state: a node whose view or name index lags for good
		sb.WriteString("NOT-CONVERGED:" + s.stale + "|")
	}
	for n := 1; n <= s.sc.nodes; n++ {
		for _, c := range views[n] {
			sb.WriteString(metaRow(c).String())
			sb.WriteString(";")
		}
		sb.WriteString("|E:")
		sb.WriteString(rowsStr(s.engine(n)))
		sb.WriteString("||")
	}
	var ds []string
	for k := range s.deleted {
		ds = append(ds, k.String())
	}
	sort.Strings(ds)
	var rs []string
	for _, k := range s.refs {
		rs = append(rs, k.String())
	}
	return sb.String() + "del:" + strings.Join(ds, ",") + " refs:" + strings.Join(rs, ",") + fmt.Sprint(s.lastFail)
}

func main() {
	gomega.RegisterFailHandler(func(m string, _ ...int) { panic("gomega: " + m) })
	// the mock cluster waits for its topology with gomega.Eventually (default 1 s)
	gomega.SetDefaultEventuallyTimeout(120 * time.Second)
	gomega.SetDefaultEventuallyPollingInterval(5 * time.Millisecond)
	r := vk.New("C15", "model_checking")
	// this harness bounds every call of the code under test with its own limits (and confirms
	// a miss on a dedicated re-run), so the supervisor's stall watchdog only has to see that
	// the process is alive
	go func() {
		for {
			vk.TouchSlots()
			time.Sleep(5 * time.Second)
		}
	}()
	// directories of disk-backed instances a killed run left behind
	if old, _ := filepath.Glob(vk.Root() + "/build/tmp/c15-node-*"); len(old) > 0 {
		for _, d := range old {
			_ = os.RemoveAll(d)
		}
	}
	var scs []scenario
	seedIdx := []string{"mk 1 1 idx a -"}
	if r.Quick() {
		scs = []scenario{
			{name: "1 node, kinds, direct", nodes: 1, depth: 4, ops: "kinds"},
			{name: "1 node, options, tx", nodes: 1, tx: true, depth: 4, ops: "options"},
			{name: "1 node, batches, tx", nodes: 1, tx: true, depth: 3, ops: "batches"},
			{name: "1 node, channel limit 2, tx", nodes: 1, tx: true, depth: 4, ops: "limit", limit: 2},
			{name: "2 nodes, kinds from an index, tx", nodes: 2, tx: true, depth: 3, ops: "kinds", seed: seedIdx},
			{name: "2 nodes, batches, direct", nodes: 2, depth: 2, ops: "batches"},
			{name: "1 node, two calls in one transaction", nodes: 1, tx: true, depth: 3, ops: "pairs"},
			{name: "1 node on disk, service restarts", nodes: 1, disk: true, depth: 3, ops: "restarts"},
		}
	} else {
		scs = []scenario{
			{name: "1 node, kinds, direct", nodes: 1, depth: 5, ops: "kinds"},
			{name: "1 node, kinds, tx", nodes: 1, tx: true, depth: 5, ops: "kinds"},
			{name: "1 node, options, tx", nodes: 1, tx: true, depth: 5, ops: "options"},
			{name: "1 node, options, direct", nodes: 1, depth: 4, ops: "options"},
			{name: "1 node, batches, tx", nodes: 1, tx: true, depth: 4, ops: "batches"},
			{name: "1 node, channel limit 2, tx", nodes: 1, tx: true, depth: 5, ops: "limit", limit: 2},
			{name: "1 node, channel limit 3, direct", nodes: 1, depth: 5, ops: "limit", limit: 3},
			{name: "2 nodes, kinds from an index, tx", nodes: 2, tx: true, depth: 4, ops: "kinds", seed: seedIdx},
			{name: "2 nodes, options, direct", nodes: 2, depth: 3, ops: "options"},
			{name: "2 nodes, batches, direct", nodes: 2, depth: 3, ops: "batches"},
			{name: "3 nodes, kinds, tx", nodes: 3, tx: true, depth: 2, ops: "kinds", seed: seedIdx},
			{name: "1 node, two calls in one transaction", nodes: 1, tx: true, depth: 4, ops: "pairs"},
			{name: "2 nodes, two calls in one transaction", nodes: 2, tx: true, depth: 3, ops: "pairs"},
			{name: "1 node on disk, service restarts", nodes: 1, disk: true, depth: 4, ops: "restarts"},
			{name: "1 node on disk, service restarts, tx", nodes: 1, disk: true, tx: true, depth: 4, ops: "restarts"},
		}
	}
	mk := func(sc scenario) seqx.Config {
		return seqx.Config{Name: sc.name, MaxDepth: sc.depth, Seed: r.Seed,
			New: func() (seqx.Sys, error) { return newSys(sc) }}
	}
	if r.Replay != "" {
		v, err := vk.LoadReplay(r.Replay)
		if err != nil {
			fmt.Fprintln(os.Stderr, err)
			os.Exit(2)
		}
		for _, sc := range scs {
			if sc.name == v.Scenario {
				if err := seqx.Replay(mk(sc), v.Trace); err != nil {
					var vv *vk.Violation
					if errors.As(err, &vv) {
						vv.Trace, vv.Scenario = v.Trace, v.Scenario
						r.Report(vv)
					} else {
						r.HarnessError("replay: %v", err)
					}
				} else {
					vk.NoRepro()
				}
			}
		}
		r.Finish()
	}
	// the time left is shared equally among the scenarios still to run: the large alphabets go
	// last so that they inherit what the small ones did not use
	sort.SliceStable(scs, func(i, j int) bool { return scs[i].ops != "options" && scs[j].ops == "options" })
	for i, sc := range scs {
		if o := os.Getenv("C15_ONLY"); o != "" && !strings.Contains(sc.name, o) {
			continue
		}
		cfg := mk(sc)
		cfg.Deadline = time.Now().Add(r.Left() / time.Duration(len(scs)-i))
		seqx.Merge(r, seqx.Explore(r, cfg))
	}
	confirmPending(r)
	r.Set("convergence_waits_inconclusive", int(inconclusive.Load()))
	if inconclusive.Load() > 0 {
		r.Set("exhaustive", false) // states whose judgement was left open by slow gossip
	}
	r.Set("rule", "BFS over single creates (index, data on the leaseholder's first index, leased virtual, free virtual, calculated; retrieve-if-exists / overwrite), batched creates (mixed kinds, two leaseholders, duplicate names, invalid name, missing index first/last, failing peer / failing gateway part), renames (single, batched), deletes (single, batched in both orders) through every gateway, directly or in a transaction committed on success; dedup on the real state (every node's metadata view + every engine's channel list + issued/deleted keys); after every transition: all nodes list the same channels, names unique and valid, keys embed the leaseholder and are never reused, per leaseholder metadata == engine (key, name, data type, index, virtual), deleted channels are not retrievable, writable or readable through any node nor present in the engine")
	r.Assume("in-memory cluster of core/pkg/distribution/mock (real aspen gossip with the fast propagation config, real cesium on memory file systems, in-memory transports); engine channel lists are obtained by probing every key of the issued range (+4) per leaseholder; service restarts are exercised on a single node whose storage is a real directory (the in-memory mock cluster cannot reopen a node)")
	r.Finish()
}
