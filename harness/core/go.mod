module github.com/synnaxlabs/synnax/zverif

go 1.26.3

require (
	github.com/synnaxlabs/alamos v0.0.0
	github.com/synnaxlabs/arc v0.0.0
	github.com/synnaxlabs/aspen v0.0.0
	github.com/synnaxlabs/cesium v0.0.0
	github.com/synnaxlabs/freighter v0.0.0
	github.com/synnaxlabs/synnax v0.0.0
	github.com/synnaxlabs/x v0.0.0
	verifkit v0.0.0
)

require (
	github.com/DataDog/zstd v1.5.7 // indirect
	github.com/RaduBerinde/axisds v0.1.0 // indirect
	github.com/RaduBerinde/btreemap v0.0.0-20260105202824-d3184786f603 // indirect
	github.com/beorn7/perks v1.0.1 // indirect
	github.com/cespare/xxhash/v2 v2.3.0 // indirect
	github.com/cockroachdb/crlib v0.0.0-20251122031428-fe658a2dbda1 // indirect
	github.com/cockroachdb/errors v1.13.0 // indirect
	github.com/cockroachdb/fifo v0.0.0-20240816210425-c5d0cb0b6fc0 // indirect
	github.com/cockroachdb/logtags v0.0.0-20241215232642-bb51bb14a506 // indirect
	github.com/cockroachdb/pebble v1.1.5 // indirect
	github.com/cockroachdb/pebble/v2 v2.1.5 // indirect
	github.com/cockroachdb/redact v1.1.8 // indirect
	github.com/cockroachdb/swiss v0.0.0-20251224182025-b0f6560f979b // indirect
	github.com/cockroachdb/tokenbucket v0.0.0-20250429170803-42689b6311bb // indirect
	github.com/getsentry/sentry-go v0.46.2 // indirect
	github.com/gogo/protobuf v1.3.2 // indirect
	github.com/golang/snappy v1.0.0 // indirect
	github.com/google/uuid v1.6.0 // indirect
	github.com/klauspost/compress v1.18.6 // indirect
	github.com/kr/pretty v0.3.1 // indirect
	github.com/kr/text v0.2.0 // indirect
	github.com/minio/minlz v1.1.1 // indirect
	github.com/munnerz/goautoneg v0.0.0-20191010083416-a7dc8b61c822 // indirect
	github.com/onsi/gomega v1.41.0 // indirect
	github.com/pkg/errors v0.9.1 // indirect
	github.com/prometheus/client_golang v1.23.2 // indirect
	github.com/prometheus/client_model v0.6.2 // indirect
	github.com/prometheus/common v0.67.5 // indirect
	github.com/prometheus/procfs v0.20.1 // indirect
	github.com/rogpeppe/go-internal v1.14.1 // indirect
	github.com/samber/lo v1.53.0 // indirect
	github.com/vmihailenco/msgpack/v5 v5.4.1 // indirect
	github.com/vmihailenco/tagparser/v2 v2.0.0 // indirect
	go.opentelemetry.io/otel v1.43.0 // indirect
	go.opentelemetry.io/otel/trace v1.43.0 // indirect
	go.uber.org/multierr v1.11.0 // indirect
	go.uber.org/zap v1.28.0 // indirect
	go.yaml.in/yaml/v2 v2.4.4 // indirect
	golang.org/x/exp v0.0.0-20260508232706-74f9aab9d74a // indirect
	golang.org/x/sync v0.20.0 // indirect
	golang.org/x/sys v0.44.0 // indirect
	golang.org/x/text v0.37.0 // indirect
	google.golang.org/protobuf v1.36.11 // indirect
)

replace (
	github.com/synnaxlabs/alamos => /repo/alamos/go
	github.com/synnaxlabs/arc => /repo/arc/go
	github.com/synnaxlabs/aspen => /repo/aspen
	github.com/synnaxlabs/cesium => /repo/cesium
	github.com/synnaxlabs/freighter => /repo/freighter/go
	github.com/synnaxlabs/synnax => /repo/core
	github.com/synnaxlabs/x => /repo/x/go
	verifkit => /verif/kit
)
