module github.com/synnaxlabs/synnax/zverif

go 1.26.3

replace (
	github.com/synnaxlabs/alamos => /repo/alamos/go
	github.com/synnaxlabs/arc => /repo/arc/go
	github.com/synnaxlabs/aspen => /repo/aspen
	github.com/synnaxlabs/cesium => /repo/cesium
	github.com/synnaxlabs/freighter => /repo/freighter/go
	github.com/synnaxlabs/x => /repo/x/go
)

require (
	github.com/PagerDuty/go-pagerduty v1.8.0
	github.com/blevesearch/bleve/v2 v2.6.0
	github.com/cockroachdb/cmux v0.0.0-20250514152509-914d3bf9ec58
	github.com/cockroachdb/pebble/v2 v2.1.5
	github.com/gofiber/contrib/v3/monitor v1.0.6
	github.com/gofiber/fiber/v3 v3.2.0
	github.com/golang-jwt/jwt/v5 v5.3.1
	github.com/google/uuid v1.6.0
	github.com/onsi/ginkgo/v2 v2.29.0
	github.com/onsi/gomega v1.41.0
	github.com/samber/lo v1.53.0
	github.com/shirou/gopsutil/v4 v4.26.4
	github.com/spf13/cobra v1.10.2
	github.com/spf13/viper v1.21.0
	github.com/synnaxlabs/alamos v0.0.0
	github.com/synnaxlabs/arc v0.0.0
	github.com/synnaxlabs/aspen v0.0.0
	github.com/synnaxlabs/cesium v0.0.0
	github.com/synnaxlabs/freighter v0.0.0
	github.com/synnaxlabs/x v0.0.0
	github.com/tetratelabs/wazero v1.11.0
	github.com/uptrace/uptrace-go v1.43.0
	github.com/vmihailenco/msgpack/v5 v5.4.1
	go.uber.org/zap v1.28.0
	golang.org/x/crypto v0.51.0
	golang.org/x/sys v0.44.0
	google.golang.org/grpc v1.81.1
	google.golang.org/protobuf v1.36.11
	gopkg.in/natefinch/lumberjack.v2 v2.2.1
	gopkg.in/yaml.v3 v3.0.1
)

require (
	github.com/DataDog/zstd v1.5.7 // indirect
	github.com/Masterminds/semver/v3 v3.5.0 // indirect
	github.com/RaduBerinde/axisds v0.1.0 // indirect
	github.com/RaduBerinde/btreemap v0.0.0-20260105202824-d3184786f603 // indirect
	github.com/RoaringBitmap/roaring/v2 v2.18.0 // indirect
	github.com/andybalholm/brotli v1.2.1 // indirect
	github.com/antlr4-go/antlr/v4 v4.13.1 // indirect
	github.com/beorn7/perks v1.0.1 // indirect
	github.com/bits-and-blooms/bitset v1.24.4 // indirect
	github.com/blevesearch/bleve_index_api v1.3.11 // indirect
	github.com/blevesearch/geo v0.2.5 // indirect
	github.com/blevesearch/go-faiss v1.1.1 // indirect
	github.com/blevesearch/go-porterstemmer v1.0.3 // indirect
	github.com/blevesearch/gtreap v0.1.1 // indirect
	github.com/blevesearch/mmap-go v1.2.0 // indirect
	github.com/blevesearch/scorch_segment_api/v2 v2.4.7 // indirect
	github.com/blevesearch/segment v0.9.1 // indirect
	github.com/blevesearch/snowballstem v0.9.0 // indirect
	github.com/blevesearch/upsidedown_store_api v1.0.2 // indirect
	github.com/blevesearch/vellum v1.2.0 // indirect
	github.com/blevesearch/zapx/v11 v11.4.3 // indirect
	github.com/blevesearch/zapx/v12 v12.4.3 // indirect
	github.com/blevesearch/zapx/v13 v13.4.3 // indirect
	github.com/blevesearch/zapx/v14 v14.4.3 // indirect
	github.com/blevesearch/zapx/v15 v15.4.3 // indirect
	github.com/blevesearch/zapx/v16 v16.3.4 // indirect
	github.com/blevesearch/zapx/v17 v17.1.3 // indirect
	github.com/cenkalti/backoff/v5 v5.0.3 // indirect
	github.com/cespare/xxhash/v2 v2.3.0 // indirect
	github.com/cockroachdb/crlib v0.0.0-20251122031428-fe658a2dbda1 // indirect
	github.com/cockroachdb/errors v1.13.0 // indirect
	github.com/cockroachdb/fifo v0.0.0-20240816210425-c5d0cb0b6fc0 // indirect
	github.com/cockroachdb/logtags v0.0.0-20241215232642-bb51bb14a506 // indirect
	github.com/cockroachdb/pebble v1.1.5 // indirect
	github.com/cockroachdb/redact v1.1.8 // indirect
	github.com/cockroachdb/swiss v0.0.0-20251224182025-b0f6560f979b // indirect
	github.com/cockroachdb/tokenbucket v0.0.0-20250429170803-42689b6311bb // indirect
	github.com/ebitengine/purego v0.10.0 // indirect
	github.com/fasthttp/websocket v1.5.12 // indirect
	github.com/fsnotify/fsnotify v1.10.1 // indirect
	github.com/getsentry/sentry-go v0.46.2 // indirect
	github.com/go-logr/logr v1.4.3 // indirect
	github.com/go-logr/stdr v1.2.2 // indirect
	github.com/go-ole/go-ole v1.3.0 // indirect
	github.com/go-task/slim-sprig/v3 v3.0.0 // indirect
	github.com/go-viper/mapstructure/v2 v2.5.0 // indirect
	github.com/gofiber/contrib/v3/websocket v1.1.5 // indirect
	github.com/gofiber/schema v1.7.1 // indirect
	github.com/gofiber/utils/v2 v2.0.5 // indirect
	github.com/gogo/protobuf v1.3.2 // indirect
	github.com/golang/snappy v1.0.0 // indirect
	github.com/google/go-cmp v0.7.0 // indirect
	github.com/google/go-querystring v1.2.0 // indirect
	github.com/google/pprof v0.0.0-20260507013755-92041b743c96 // indirect
	github.com/grpc-ecosystem/grpc-gateway/v2 v2.29.0 // indirect
	github.com/inconshreveable/mousetrap v1.1.0 // indirect
	github.com/json-iterator/go v1.1.12 // indirect
	github.com/klauspost/compress v1.18.6 // indirect
	github.com/kr/pretty v0.3.1 // indirect
	github.com/kr/text v0.2.0 // indirect
	github.com/lufia/plan9stats v0.0.0-20260330125221-c963978e514e // indirect
	github.com/mattn/go-colorable v0.1.14 // indirect
	github.com/mattn/go-isatty v0.0.22 // indirect
	github.com/minio/minlz v1.1.1 // indirect
	github.com/modern-go/concurrent v0.0.0-20180306012644-bacd9c7ef1dd // indirect
	github.com/modern-go/reflect2 v1.0.2 // indirect
	github.com/mschoch/smat v0.2.0 // indirect
	github.com/munnerz/goautoneg v0.0.0-20191010083416-a7dc8b61c822 // indirect
	github.com/pelletier/go-toml/v2 v2.3.1 // indirect
	github.com/philhofer/fwd v1.2.0 // indirect
	github.com/pkg/errors v0.9.1 // indirect
	github.com/power-devops/perfstat v0.0.0-20240221224432-82ca36839d55 // indirect
	github.com/prometheus/client_golang v1.23.2 // indirect
	github.com/prometheus/client_model v0.6.2 // indirect
	github.com/prometheus/common v0.67.5 // indirect
	github.com/prometheus/procfs v0.20.1 // indirect
	github.com/rogpeppe/go-internal v1.14.1 // indirect
	github.com/sagikazarmark/locafero v0.12.0 // indirect
	github.com/savsgio/gotils v0.0.0-20250924091648-bce9a52d7761 // indirect
	github.com/segmentio/asm v1.2.1 // indirect
	github.com/segmentio/encoding v0.5.4 // indirect
	github.com/spf13/afero v1.15.0 // indirect
	github.com/spf13/cast v1.10.0 // indirect
	github.com/spf13/pflag v1.0.10 // indirect
	github.com/subosito/gotenv v1.6.0 // indirect
	github.com/tinylib/msgp v1.6.4 // indirect
	github.com/tklauser/go-sysconf v0.4.0 // indirect
	github.com/tklauser/numcpus v0.12.0 // indirect
	github.com/valyala/bytebufferpool v1.0.0 // indirect
	github.com/valyala/fasthttp v1.71.0 // indirect
	github.com/vmihailenco/tagparser/v2 v2.0.0 // indirect
	github.com/yusufpapurcu/wmi v1.2.4 // indirect
	go.etcd.io/bbolt v1.4.3 // indirect
	go.lsp.dev/jsonrpc2 v0.10.0 // indirect
	go.lsp.dev/pkg v0.0.0-20210717090340-384b27a52fb2 // indirect
	go.lsp.dev/uri v0.3.0 // indirect
	go.opentelemetry.io/auto/sdk v1.2.1 // indirect
	go.opentelemetry.io/contrib/instrumentation/runtime v0.68.0 // indirect
	go.opentelemetry.io/contrib/processors/minsev v0.16.0 // indirect
	go.opentelemetry.io/otel v1.43.0 // indirect
	go.opentelemetry.io/otel/exporters/otlp/otlplog/otlploghttp v0.19.0 // indirect
	go.opentelemetry.io/otel/exporters/otlp/otlpmetric/otlpmetrichttp v1.43.0 // indirect
	go.opentelemetry.io/otel/exporters/otlp/otlptrace v1.43.0 // indirect
	go.opentelemetry.io/otel/exporters/otlp/otlptrace/otlptracehttp v1.43.0 // indirect
	go.opentelemetry.io/otel/exporters/stdout/stdouttrace v1.43.0 // indirect
	go.opentelemetry.io/otel/log v0.19.0 // indirect
	go.opentelemetry.io/otel/metric v1.43.0 // indirect
	go.opentelemetry.io/otel/sdk v1.43.0 // indirect
	go.opentelemetry.io/otel/sdk/log v0.19.0 // indirect
	go.opentelemetry.io/otel/sdk/metric v1.43.0 // indirect
	go.opentelemetry.io/otel/trace v1.43.0 // indirect
	go.opentelemetry.io/proto/otlp v1.10.0 // indirect
	go.uber.org/multierr v1.11.0 // indirect
	go.yaml.in/yaml/v2 v2.4.4 // indirect
	go.yaml.in/yaml/v3 v3.0.4 // indirect
	golang.org/x/exp v0.0.0-20260508232706-74f9aab9d74a // indirect
	golang.org/x/mod v0.36.0 // indirect
	golang.org/x/net v0.54.0 // indirect
	golang.org/x/sync v0.20.0 // indirect
	golang.org/x/text v0.37.0 // indirect
	golang.org/x/tools v0.45.0 // indirect
	google.golang.org/genproto/googleapis/api v0.0.0-20260511170946-3700d4141b60 // indirect
	google.golang.org/genproto/googleapis/rpc v0.0.0-20260511170946-3700d4141b60 // indirect
)

require github.com/synnaxlabs/synnax v0.0.0
require verifkit v0.0.0
replace github.com/synnaxlabs/synnax => /repo/core
replace verifkit => /verif/kit
