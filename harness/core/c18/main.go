// C18 — access is granted exactly when a role's policy covers every object.
//
// Explicit-state BFS over the real rbac.Service stack (ontology, group, user, role,
// policy on memkv) against a set-based reference. After every op every request in
// subjects x actions x object lists (length 1-2) is enforced in the committed view and
// in the open transaction and compared (biconditional).
package main

import (
	"context"
	"fmt"
	"io"
	"os"
	"slices"
	"sort"
	"strings"
	"time"

	"github.com/google/uuid"
	"github.com/synnaxlabs/synnax/pkg/distribution/group"
	"github.com/synnaxlabs/synnax/pkg/distribution/ontology"
	"github.com/synnaxlabs/synnax/pkg/distribution/search"
	"github.com/synnaxlabs/synnax/pkg/service/access"
	"github.com/synnaxlabs/synnax/pkg/service/access/rbac"
	"github.com/synnaxlabs/synnax/pkg/service/access/rbac/policy"
	"github.com/synnaxlabs/synnax/pkg/service/access/rbac/role"
	"github.com/synnaxlabs/synnax/pkg/service/auth"
	"github.com/synnaxlabs/synnax/pkg/service/user"
	"github.com/synnaxlabs/x/errors"
	"github.com/synnaxlabs/x/gorp"
	"github.com/synnaxlabs/x/kv/memkv"
	"verifkit/seqx"
	"verifkit/vk"
)

var ctx = context.Background()

func oid(t, k string) ontology.ID { return ontology.ID{Type: ontology.ResourceType(t), Key: k} }

var (
	subjects = map[string]ontology.ID{
		"s1": oid("user", "00000000-0000-0000-0000-0000000000a1"),
		"s2": oid("user", "00000000-0000-0000-0000-0000000000a2"),
		"ghost": oid("user", "00000000-0000-0000-0000-0000000000ff"),
	}
	roleKeys = map[string]uuid.UUID{
		"r1": uuid.MustParse("10000000-0000-0000-0000-000000000001"),
		"r2": uuid.MustParse("10000000-0000-0000-0000-000000000002"),
	}
	objT, objT1, objT2, objU, objU1, objV1 = oid("rack", ""), oid("rack", "1"), oid("rack", "2"), oid("task", ""), oid("task", "1"), oid("device", "1")
	// tricky objects: same key under another type, key that extends a covered key
	objU2, objT10 = oid("task", "2"), oid("rack", "10")
	policyDefs   = map[string]policy.Policy{
		"pA": {Key: uuid.MustParse("20000000-0000-0000-0000-00000000000a"), Name: "pA", Objects: []ontology.ID{objT}, Actions: []access.Action{access.ActionRetrieve}},
		"pB": {Key: uuid.MustParse("20000000-0000-0000-0000-00000000000b"), Name: "pB", Objects: []ontology.ID{objT1}, Actions: []access.Action{access.ActionRetrieve, access.ActionDelete}},
		"pC": {Key: uuid.MustParse("20000000-0000-0000-0000-00000000000c"), Name: "pC", Objects: []ontology.ID{objT2, objU}, Actions: []access.Action{access.ActionRetrieve}},
		"pD": {Key: uuid.MustParse("20000000-0000-0000-0000-00000000000d"), Name: "pD", Objects: []ontology.ID{objU1}, Actions: []access.Action{}},
	}
	actions  = []access.Action{access.ActionRetrieve, access.ActionDelete}
	requests [][]ontology.ID
)

func init() {
	singles := []ontology.ID{objT1, objT2, objT10, objU1, objU2, objV1}
	for _, o := range singles {
		requests = append(requests, []ontology.ID{o})
	}
	for i, a := range singles {
		for j, b := range singles {
			if i != j {
				requests = append(requests, []ontology.ID{a, b})
			}
		}
	}
}

type model struct {
	roles    map[string]bool
	policies map[string]bool
	attach   map[[2]string]bool // role, policy
	assign   map[[2]string]bool // role, subject
}

func newModel() *model {
	return &model{roles: map[string]bool{}, policies: map[string]bool{}, attach: map[[2]string]bool{}, assign: map[[2]string]bool{}}
}

func (m *model) clone() *model {
	c := newModel()
	for k := range m.roles {
		c.roles[k] = true
	}
	for k := range m.policies {
		c.policies[k] = true
	}
	for k := range m.attach {
		c.attach[k] = true
	}
	for k := range m.assign {
		c.assign[k] = true
	}
	return c
}

func keysOf[K comparable](m map[K]bool, f func(K) string) []string {
	var out []string
	for k := range m {
		out = append(out, f(k))
	}
	sort.Strings(out)
	return out
}

func (m *model) canon() string {
	id := func(s string) string { return s }
	pr := func(p [2]string) string { return p[0] + ">" + p[1] }
	return fmt.Sprintf("roles%v pol%v attach%v assign%v", keysOf(m.roles, id), keysOf(m.policies, id), keysOf(m.attach, pr), keysOf(m.assign, pr))
}

func (m *model) policiesFor(subj string) []string {
	set := map[string]bool{}
	for as := range m.assign {
		if as[1] != subj || !m.roles[as[0]] {
			continue
		}
		for at := range m.attach {
			if at[0] == as[0] && m.policies[at[1]] {
				set[at[1]] = true
			}
		}
	}
	return keysOf(set, func(s string) string { return s })
}

func (m *model) allowed(subj string, act access.Action, objs []ontology.ID) bool {
	ps := m.policiesFor(subj)
	for _, o := range objs {
		found := false
		for _, pn := range ps {
			p := policyDefs[pn]
			if !slices.Contains(p.Actions, act) {
				continue
			}
			for _, po := range p.Objects {
				if (po.Key == "" && po.Type == o.Type) || po == o {
					found = true
				}
			}
		}
		if !found {
			return false
		}
	}
	return true
}

type sys struct {
	grouped bool
	nPol    []string
	closers []io.Closer
	db      *gorp.DB
	otg     *ontology.Ontology
	svc     *rbac.Service
	m       *model
	tx      gorp.Tx
	txm     *model
}

func must[T any](v T, err error) T {
	if err != nil {
		panic(err)
	}
	return v
}

func newSys(pols []string, seed bool) (s *sys, err error) {
	defer func() {
		if p := recover(); p != nil {
			err = fmt.Errorf("setup: %v", p)
		}
	}()
	store := memkv.New()
	db := gorp.Wrap(store)
	otg := must(ontology.Open(ctx, ontology.Config{DB: db}))
	searchIdx := must(search.Open())
	groupSvc := must(group.OpenService(ctx, group.ServiceConfig{DB: db, Ontology: otg, Search: searchIdx}))
	authSvc := must(auth.OpenService(ctx, auth.ServiceConfig{DB: db}))
	userSvc := must(user.OpenService(ctx, user.ServiceConfig{DB: db, Ontology: otg, Group: groupSvc, Search: searchIdx, Auth: authSvc,
		RootCredentials: auth.Credentials{Username: "root", Password: "p"}}))
	svc := must(rbac.OpenService(ctx, rbac.ServiceConfig{DB: db, Ontology: otg, Group: groupSvc, Search: searchIdx, User: userSvc}))
	s = &sys{nPol: pols, db: db, otg: otg, svc: svc, m: newModel(),
		closers: []io.Closer{svc, userSvc, authSvc, groupSvc, searchIdx, otg, store}}
	w := otg.NewWriter(nil)
	for _, n := range []string{"s1", "s2"} {
		if err := w.DefineResource(ctx, subjects[n]); err != nil {
			return nil, err
		}
	}
	if seed {
		for _, op := range []string{"mkrole r1", "mkpol pA", "attach r1 pA", "assign r1 s1"} {
			if _, err := s.Apply(op); err != nil {
				return nil, fmt.Errorf("seed %s: %w", op, err)
			}
		}
	}
	return s, nil
}

func (s *sys) Close() {
	if s.tx != nil {
		_ = s.tx.Close()
	}
	for _, c := range s.closers {
		_ = c.Close()
	}
}

func (s *sys) Ops() []string {
	var ops []string
	if s.tx == nil {
		ops = append(ops, "begin")
	} else {
		ops = append(ops, "commit", "abort")
	}
	for _, r := range []string{"r1", "r2"} {
		ops = append(ops, "mkrole "+r)
	}
	for _, p := range s.nPol {
		ops = append(ops, "mkpol "+p)
	}
	for _, r := range []string{"r1", "r2"} {
		for _, su := range []string{"s1", "s2"} {
			ops = append(ops, "assign "+r+" "+su)
		}
	}
	for _, r := range []string{"r1", "r2"} {
		for _, p := range s.nPol {
			ops = append(ops, "attach "+r+" "+p)
		}
	}
	for _, r := range []string{"r1", "r2"} {
		for _, su := range []string{"s1", "s2"} {
			ops = append(ops, "unassign "+r+" "+su)
		}
	}
	// filing a subject and a policy under one non-role parent (a group) grants nothing
	if !s.grouped && len(s.nPol) > 0 {
		ops = append(ops, "group s2 "+s.nPol[0])
	}
	for _, p := range s.nPol {
		ops = append(ops, "rmpol "+p)
	}
	for _, r := range []string{"r1", "r2"} {
		ops = append(ops, "rmrole "+r)
	}
	return ops
}

func (s *sys) Apply(op string) (string, error) {
	switch op {
	case "begin":
		s.tx = s.db.OpenTx()
		s.txm = s.m.clone()
		return "ok", nil
	case "commit":
		if err := s.tx.Commit(ctx); err != nil {
			return "", fmt.Errorf("commit: %v", err)
		}
		_ = s.tx.Close()
		s.m, s.tx, s.txm = s.txm, nil, nil
		return "ok", nil
	case "abort":
		_ = s.tx.Close()
		s.tx, s.txm = nil, nil
		return "ok", nil
	}
	m, tx := s.m, s.tx
	if tx != nil {
		m = s.txm
	}
	f := strings.Fields(op)
	rw := s.svc.Role.NewWriter(tx, false)
	pw := s.svc.Policy.NewWriter(tx, false)
	switch f[0] {
	case "mkrole":
		if m.roles[f[1]] {
			return "skip-exists", nil
		}
		r := role.Role{Key: roleKeys[f[1]], Name: f[1]}
		if err := rw.Create(ctx, &r); err != nil {
			return "", vk.Violationf("mkrole-error", "creating role %s failed: %v (model %s)", f[1], err, m.canon())
		}
		m.roles[f[1]] = true
		return "ok", nil
	case "mkpol":
		if m.policies[f[1]] {
			return "skip-exists", nil
		}
		p := policyDefs[f[1]]
		if err := pw.Create(ctx, &p); err != nil {
			return "", vk.Violationf("mkpol-error", "creating policy %s failed: %v (model %s)", f[1], err, m.canon())
		}
		m.policies[f[1]] = true
		return "ok", nil
	case "group":
		// only the ontology is touched: a group resource becomes the parent of the subject and
		// of the policy (if it exists); the model is unchanged - access comes from roles only
		gid := oid("group", "00000000-0000-0000-0000-0000000000aa")
		ow := s.otg.NewWriter(s.tx)
		if err := ow.DefineResource(ctx, gid); err != nil {
			return "", fmt.Errorf("group: %v", err)
		}
		if err := ow.DefineRelationship(ctx, gid, ontology.RelationshipTypeParentOf, subjects[f[1]]); err != nil {
			return "", fmt.Errorf("group: %v", err)
		}
		if m.policies[f[2]] {
			if err := ow.DefineRelationship(ctx, gid, ontology.RelationshipTypeParentOf, policy.OntologyID(policyDefs[f[2]].Key)); err != nil {
				return "refused:" + short(err), nil
			}
		}
		s.grouped = true
		return "ok", nil
	case "rmrole":
		err := rw.Delete(ctx, roleKeys[f[1]])
		if err != nil {
			// a refused delete must leave everything as it was (the sweep checks that)
			return "refused:" + short(err), nil
		}
		delete(m.roles, f[1])
		for k := range m.attach {
			if k[0] == f[1] {
				delete(m.attach, k)
			}
		}
		for k := range m.assign {
			if k[0] == f[1] {
				delete(m.assign, k)
			}
		}
		return "ok", nil
	case "rmpol":
		err := pw.Delete(ctx, policyDefs[f[1]].Key)
		if err != nil {
			return "refused:" + short(err), nil
		}
		delete(m.policies, f[1])
		for k := range m.attach {
			if k[1] == f[1] {
				delete(m.attach, k)
			}
		}
		return "ok", nil
	case "attach":
		err := pw.SetOnRole(ctx, roleKeys[f[1]], policyDefs[f[2]].Key)
		if !m.roles[f[1]] || !m.policies[f[2]] {
			// The property does not say whether attaching a missing role/policy must fail. An
			// accepted call is taken at its word (the attachment is recorded) but grants nothing
			// while either end is missing; deleting either end drops the attachment.
			if err == nil {
				m.attach[[2]string{f[1], f[2]}] = true
				return "ok-missing-end", nil
			}
			return "refused-missing", nil
		}
		if err != nil {
			return "", vk.Violationf("attach-error", "SetOnRole(%s,%s) failed: %v (model %s)", f[1], f[2], err, m.canon())
		}
		m.attach[[2]string{f[1], f[2]}] = true
		return "ok", nil
	case "assign":
		err := rw.AssignRole(ctx, subjects[f[2]], roleKeys[f[1]])
		if !m.roles[f[1]] {
			if err == nil {
				m.assign[[2]string{f[1], f[2]}] = true
				return "ok-missing-end", nil
			}
			return "refused-missing", nil
		}
		if err != nil {
			return "", vk.Violationf("assign-error", "AssignRole(%s,%s) failed: %v (model %s)", f[1], f[2], err, m.canon())
		}
		m.assign[[2]string{f[1], f[2]}] = true
		return "ok", nil
	case "unassign":
		if err := rw.UnassignRole(ctx, subjects[f[2]], roleKeys[f[1]]); err != nil {
			return "", vk.Violationf("unassign-error", "UnassignRole(%s,%s) failed: %v", f[1], f[2], err)
		}
		delete(m.assign, [2]string{f[1], f[2]})
		return "ok", nil
	}
	return "", fmt.Errorf("unknown op %q", op)
}

func short(err error) string {
	s := err.Error()
	if len(s) > 40 {
		s = s[:40]
	}
	return s
}

func (s *sys) Canon() string {
	c := s.m.canon()
	if s.tx != nil {
		c += " TX{" + s.txm.canon() + "}"
	}
	// digest of the real stores: paths are merged only if the implementation state agrees too
	return c + fmt.Sprintf(" grouped:%v", s.grouped) + " real:" + s.rawDigest(nil) + "|" + s.rawDigest(s.tx)
}

func (s *sys) rawDigest(tx gorp.Tx) string {
	h := gorp.OverrideTx(s.db, tx)
	interesting := func(id ontology.ID) bool {
		if id.Type == ontology.ResourceTypeUser {
			for _, sid := range subjects {
				if sid == id {
					return true
				}
			}
			return false
		}
		if id.Type == ontology.ResourceTypeRole {
			for _, k := range roleKeys {
				if k.String() == id.Key {
					return true
				}
			}
			return false
		}
		if id.Type == ontology.ResourceTypePolicy {
			for _, p := range policyDefs {
				if p.Key.String() == id.Key {
					return true
				}
			}
		}
		return false
	}
	var out []string
	var rels []ontology.Relationship
	_ = gorp.NewRetrieve[string, ontology.Relationship]().Entries(&rels).Exec(ctx, h)
	for _, r := range rels {
		if interesting(r.From) && interesting(r.To) {
			out = append(out, r.GorpKey())
		}
	}
	var ress []ontology.Resource
	_ = gorp.NewRetrieve[string, ontology.Resource]().Entries(&ress).Exec(ctx, h)
	for _, r := range ress {
		if interesting(r.ID) {
			out = append(out, r.ID.String())
		}
	}
	var ps []policy.Policy
	_ = s.svc.Policy.NewRetrieve().Entries(&ps).Exec(ctx, tx)
	for _, p := range ps {
		for _, d := range policyDefs {
			if d.Key == p.Key {
				out = append(out, "P:"+p.Name)
			}
		}
	}
	var rs []role.Role
	_ = s.svc.Role.NewRetrieve().Entries(&rs).Exec(ctx, tx)
	for _, r := range rs {
		for _, k := range roleKeys {
			if k == r.Key {
				out = append(out, "R:"+r.Name)
			}
		}
	}
	sort.Strings(out)
	return strings.Join(out, ",")
}

func (s *sys) checkView(tx gorp.Tx, m *model, name string) error {
	enf := s.svc.NewEnforcer(tx)
	for _, sn := range []string{"s1", "s2", "ghost"} {
		if sn != "ghost" {
			ps, err := s.svc.RetrievePoliciesForSubject(ctx, subjects[sn], tx)
			var got []string
			for _, p := range ps {
				got = append(got, p.Name)
			}
			sort.Strings(got)
			got = slices.Compact(got) // a policy reached through two roles is listed twice; judged as a set
			want := m.policiesFor(sn)
			if err != nil && len(want) > 0 {
				return vk.Violationf("policies-error", "[%s] RetrievePoliciesForSubject(%s) failed with %v although the model grants %v (model %s)", name, sn, err, want, m.canon())
			}
			if err == nil && !slices.Equal(got, want) {
				return vk.Violationf("policies-mismatch", "[%s] RetrievePoliciesForSubject(%s)=%v, model %v (model %s)", name, sn, got, want, m.canon())
			}
		}
		for _, act := range actions {
			for _, objs := range requests {
				err := enf.Enforce(ctx, access.Request{Subject: subjects[sn], Action: act, Objects: objs})
				want := sn != "ghost" && m.allowed(sn, act, objs)
				got := err == nil
				if got != want {
					kind := "over-permission"
					if want {
						kind = "under-permission"
					}
					return vk.Violationf(kind, "[%s] Enforce(subject=%s action=%s objects=%v) = %v, model says allowed=%v; policies of subject per model: %v (model %s)", name, sn, act, objs, err, want, m.policiesFor(sn), m.canon())
				}
			}
		}
	}
	return nil
}

func (s *sys) Check() error {
	if err := s.checkView(nil, s.m, "db"); err != nil {
		return err
	}
	if s.tx != nil {
		return s.checkView(s.tx, s.txm, "tx")
	}
	return nil
}

type scenario struct {
	name  string
	pols  []string
	seed  bool
	depth int
}

func main() {
	r := vk.New("C18", "model_checking")
	var scs []scenario
	if r.Quick() {
		scs = []scenario{
			{"from empty, 2 policies", []string{"pA", "pB"}, false, 5},
			{"from seeded (r1+pA assigned to s1), 3 policies", []string{"pA", "pB", "pC"}, true, 4},
		}
	} else {
		scs = []scenario{
			{"from empty, 2 policies", []string{"pA", "pB"}, false, 7},
			{"from seeded (r1+pA assigned to s1), 3 policies", []string{"pA", "pB", "pC"}, true, 6},
			{"from seeded (r1+pA assigned to s1), 4 policies", []string{"pA", "pB", "pC", "pD"}, true, 5},
		}
	}
	mk := func(sc scenario) seqx.Config {
		return seqx.Config{Name: sc.name, MaxDepth: sc.depth, Seed: r.Seed,
			New: func() (seqx.Sys, error) { return newSys(sc.pols, sc.seed) }}
	}
	if r.Replay != "" {
		v, err := vk.LoadReplay(r.Replay)
		if err != nil {
			fmt.Fprintln(os.Stderr, err)
			os.Exit(2)
		}
		all := append(scs, scenario{"from seeded (r1+pA assigned to s1), 4 policies", []string{"pA", "pB", "pC", "pD"}, true, 5})
		for _, sc := range all {
			if sc.name == v.Scenario {
				if err := seqx.Replay(mk(sc), v.Trace); err != nil {
					var vv *vk.Violation
					if errors.As(err, &vv) {
						vv.Trace, vv.Scenario = v.Trace, v.Scenario
						r.Report(vv)
					} else {
						r.HarnessError("replay: %v", err)
					}
				} else {
					vk.NoRepro()
				}
				break
			}
		}
		r.Finish()
	}
	for i, sc := range scs {
		cfg := mk(sc)
		cfg.Deadline = time.Now().Add(r.Left() / time.Duration(len(scs)-i))
		seqx.Merge(r, seqx.Explore(r, cfg))
	}
	r.Set("requests_per_view", 3*len(actions)*len(requests))
	r.Set("rule", "BFS over create/delete role, create/delete policy, attach policy to role, assign/unassign role, in multi-op transactions (begin/commit/abort) or directly; dedup on the model configuration (+tx view); every new state: every request in {s1,s2,unknown} x {retrieve,delete} x object lists of length 1-2 over covered/uncovered/type-only/other-type objects is enforced in the committed view and in the open tx and compared with the set-based reference; RetrievePoliciesForSubject == model")
	r.Assume("memkv storage; go1.26.8 toolchain; policies cannot be detached from a role other than by deleting either (no API)")
	r.Finish()
}
