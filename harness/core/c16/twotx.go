package main

// Two open transactions: each defines relationships that are fine on their own view (what is
// committed plus what the transaction itself wrote), both commit. "Acyclic at all times" is a
// statement about the committed graph, so the union of what the two transactions were allowed
// to commit must not contain a cycle - whichever of them commits first. Enumerated: every pair
// of single relationships over three existing resources (one per transaction, and one
// transaction defining two), both commit orders, and the variant in which the first transaction
// commits before the second one defines its relationship (which must then be refused).

import (
	"fmt"
	"sort"
	"strings"

	"github.com/synnaxlabs/synnax/pkg/distribution/ontology"
	"github.com/synnaxlabs/x/errors"
	"github.com/synnaxlabs/x/gorp"
	"verifkit/vk"
)

const twoTxName = "T2 two open transactions define relationships and both commit"

type twoTxCase struct {
	e1, e2 [2]string // from, to
	order  string    // "12", "21": commit order; "1-then-2": tx 1 commits before tx 2 defines
	// del2: transaction 2 deletes the resource e2[0] instead of defining a relationship
	del2 bool
}

func (c twoTxCase) String() string {
	if c.del2 {
		return fmt.Sprintf("tx1 defines %s->%s, tx2 deletes resource %s, commits %s", c.e1[0], c.e1[1], c.e2[0], c.order)
	}
	return fmt.Sprintf("tx1 defines %s->%s, tx2 defines %s->%s, commits %s", c.e1[0], c.e1[1], c.e2[0], c.e2[1], c.order)
}

func twoTxCases() []twoTxCase {
	u := []string{"t:1", "t:10", "u:1"}
	var out []twoTxCase
	for _, a := range u {
		for _, b := range u {
			for _, c := range u {
				for _, d := range u {
					if a == b || c == d {
						continue
					}
					for _, o := range []string{"12", "21", "1-then-2"} {
						out = append(out, twoTxCase{e1: [2]string{a, b}, e2: [2]string{c, d}, order: o})
					}
				}
			}
		}
	}
	// a relationship defined in one transaction while the other deletes one of its endpoints
	for _, a := range u {
		for _, b := range u {
			if a == b {
				continue
			}
			for _, x := range []string{a, b} {
				for _, o := range []string{"12", "21"} {
					out = append(out, twoTxCase{e1: [2]string{a, b}, e2: [2]string{x, ""}, order: o, del2: true})
				}
			}
		}
	}
	return out
}

func runTwoTx(c twoTxCase) error {
	s, err := newSys([]string{"t:1", "t:10", "u:1"}, []string{"parent"}, false)
	if err != nil {
		return err
	}
	defer s.Close()
	for _, r := range s.universe {
		if err := s.otg.NewWriter(nil).DefineResource(ctx, pid(r)); err != nil {
			return err
		}
	}
	tx1, tx2 := s.db.OpenTx(), s.db.OpenTx()
	defer func() { _ = tx1.Close(); _ = tx2.Close() }()
	def := func(tx gorp.Tx, e [2]string) error {
		if c.del2 && tx == tx2 {
			return s.otg.NewWriter(tx).DeleteResource(ctx, pid(e[0]))
		}
		return s.otg.NewWriter(tx).DefineRelationship(ctx, pid(e[0]), ontology.RelationshipType("parent"), pid(e[1]))
	}
	var d1, d2, c1, c2 error
	d1 = def(tx1, c.e1)
	if c.order == "1-then-2" {
		if d1 == nil {
			c1 = tx1.Commit(ctx)
		}
		d2 = def(tx2, c.e2)
		if d2 == nil {
			c2 = tx2.Commit(ctx)
		}
	} else {
		d2 = def(tx2, c.e2)
		commit := func(which int) {
			if which == 1 && d1 == nil {
				c1 = tx1.Commit(ctx)
			}
			if which == 2 && d2 == nil {
				c2 = tx2.Commit(ctx)
			}
		}
		if c.order == "12" {
			commit(1)
			commit(2)
		} else {
			commit(2)
			commit(1)
		}
	}
	// the committed graph
	var rels []ontology.Relationship
	if err := gorp.NewRetrieve[string, ontology.Relationship]().Entries(&rels).Exec(ctx, s.db); err != nil {
		return fmt.Errorf("raw relationship scan: %v", err)
	}
	adj := map[string][]string{}
	var es []string
	for _, r := range rels {
		adj[r.From.String()] = append(adj[r.From.String()], r.To.String())
		es = append(es, r.From.String()+"->"+r.To.String())
	}
	sort.Strings(es)
	var cyc func(n string, path map[string]bool) bool
	cyc = func(n string, path map[string]bool) bool {
		if path[n] {
			return true
		}
		path[n] = true
		for _, m := range adj[n] {
			if cyc(m, path) {
				return true
			}
		}
		delete(path, n)
		return false
	}
	for n := range adj {
		if cyc(n, map[string]bool{}) {
			return vk.Violationf("cycle-committed-by-two-transactions",
				"%s: define results (%v, %v), commit results (%v, %v); the committed relationships %s contain a cycle", c, d1, d2, c1, c2, strings.Join(es, " "))
		}
	}
	// no committed relationship touches a resource that is gone
	var ress []ontology.Resource
	if err := gorp.NewRetrieve[string, ontology.Resource]().Entries(&ress).Exec(ctx, s.db); err != nil {
		return fmt.Errorf("raw resource scan: %v", err)
	}
	have := map[string]bool{}
	for _, r := range ress {
		have[r.ID.String()] = true
	}
	for _, r := range rels {
		if !have[r.From.String()] || !have[r.To.String()] {
			return vk.Violationf("dangling-relationship-committed-by-two-transactions",
				"%s: results (%v, %v), commit results (%v, %v); the committed relationship %s->%s touches a resource that no longer exists", c, d1, d2, c1, c2, r.From, r.To)
		}
	}
	// an edge that closes no cycle in the committed graph at the time it is defined is never refused
	if c.order != "1-then-2" {
		if d1 != nil {
			return vk.Violationf("two-tx:defrel-refused-without-cycle", "%s: the first definition was refused: %v", c, d1)
		}
	}
	return nil
}

func twoTxPart(r *vk.Run) {
	n, unconfirmed := 0, 0
	for _, c := range twoTxCases() {
		vk.Beat()
		n++
		err := runTwoTx(c)
		if err == nil {
			continue
		}
		var v *vk.Violation
		if !errors.As(err, &v) {
			r.HarnessError("%s: %s: %v", twoTxName, c, err)
			continue
		}
		v.Scenario, v.Trace = twoTxName, []string{c.String()}
		if !r.FreshReplay(v, 2) {
			unconfirmed++
			continue
		}
		r.Report(v)
	}
	r.Add("two_transaction_cases", n)
	r.Add("transitions", n)
	r.Add("traces_validated_against_impl", n)
	if unconfirmed > 0 {
		r.Add("unconfirmed_observations", unconfirmed)
	}
}
