// C16 — the ontology graph stays acyclic, exact and free of dangling edges.
//
// Explicit-state BFS over the real ontology.Ontology (memkv). Resource identifiers are
// chosen to collide under prefix/suffix string matching (t:1 / t:10 / t:11 / ut:1 / u:1).
// Reference model: a set of resources and a set of typed edges; DefineRelationship must
// succeed iff both ends exist and the target does not reach the source (both directions
// of the iff are judged).
package main

import (
	"context"
	"fmt"
	"io"
	"iter"
	"os"
	"slices"
	"sort"
	"strings"
	"time"

	"github.com/synnaxlabs/synnax/pkg/distribution/ontology"
	"github.com/synnaxlabs/x/errors"
	"github.com/synnaxlabs/x/gorp"
	"github.com/synnaxlabs/x/graph"
	xio "github.com/synnaxlabs/x/io"
	"github.com/synnaxlabs/x/kv/memkv"
	"github.com/synnaxlabs/x/observe"
	"github.com/synnaxlabs/x/zyn"
	"verifkit/seqx"
	"verifkit/vk"
)

var ctx = context.Background()

type svc struct {
	observe.Noop[iter.Seq[ontology.Change]]
	t ontology.ResourceType
}

var schema = zyn.Object(map[string]zyn.Schema{"key": zyn.String()})

func (s *svc) Type() ontology.ResourceType { return s.t }
func (s *svc) Schema() zyn.Schema          { return schema }
func (s *svc) RetrieveResource(_ context.Context, key string, _ gorp.Tx) (ontology.Resource, error) {
	return ontology.NewResource(schema, ontology.ID{Type: s.t, Key: key}, "n", struct{ Key string }{key}), nil
}
func (s *svc) OpenNexter(context.Context) (iter.Seq[ontology.Resource], io.Closer, error) {
	return slices.Values([]ontology.Resource{}), xio.NopCloser, nil
}

func pid(s string) ontology.ID {
	i := strings.IndexByte(s, ':')
	return ontology.ID{Type: ontology.ResourceType(s[:i]), Key: s[i+1:]}
}

type edge struct{ from, typ, to string }

func (e edge) String() string { return e.from + "->" + e.typ + "->" + e.to }

type gmodel struct {
	res   map[string]bool
	edges map[edge]bool
}

func (g *gmodel) clone() *gmodel {
	c := &gmodel{res: map[string]bool{}, edges: map[edge]bool{}}
	for k := range g.res {
		c.res[k] = true
	}
	for k := range g.edges {
		c.edges[k] = true
	}
	return c
}

func (g *gmodel) reaches(a, b string) bool { // a ->* b over all types, length >= 0
	if a == b {
		return true
	}
	seen := map[string]bool{a: true}
	st := []string{a}
	for len(st) > 0 {
		x := st[len(st)-1]
		st = st[:len(st)-1]
		for e := range g.edges {
			if e.from == x && !seen[e.to] {
				if e.to == b {
					return true
				}
				seen[e.to] = true
				st = append(st, e.to)
			}
		}
	}
	return false
}

func (g *gmodel) next(ids []string, typ string, fwd bool) []string {
	var out []string
	for _, id := range ids {
		for e := range g.edges {
			if e.typ != typ {
				continue
			}
			if fwd && e.from == id {
				out = append(out, e.to)
			}
			if !fwd && e.to == id {
				out = append(out, e.from)
			}
		}
	}
	return uniq(out)
}

func uniq(s []string) []string {
	sort.Strings(s)
	return slices.Compact(s)
}

func (g *gmodel) canon() string {
	var r, e []string
	for k := range g.res {
		r = append(r, k)
	}
	for k := range g.edges {
		e = append(e, k.String())
	}
	sort.Strings(r)
	sort.Strings(e)
	return "R[" + strings.Join(r, " ") + "] E[" + strings.Join(e, " ") + "]"
}

type sys struct {
	universe []string
	types    []string
	multiTx  bool
	store    io.Closer
	db       *gorp.DB
	otg      *ontology.Ontology
	m        *gmodel // committed
	tx       gorp.Tx
	txm      *gmodel // view in the open tx
}

func newSys(universe, types []string, multiTx bool) (*sys, error) {
	store := memkv.New()
	db := gorp.Wrap(store)
	otg, err := ontology.Open(ctx, ontology.Config{DB: db})
	if err != nil {
		return nil, err
	}
	seen := map[ontology.ResourceType]bool{}
	for _, u := range universe {
		t := pid(u).Type
		if !seen[t] {
			seen[t] = true
			otg.RegisterService(&svc{t: t})
		}
	}
	return &sys{universe: universe, types: types, multiTx: multiTx, store: store, db: db, otg: otg,
		m: &gmodel{res: map[string]bool{}, edges: map[edge]bool{}}}, nil
}

func (s *sys) Close() {
	if s.tx != nil {
		_ = s.tx.Close()
	}
	_ = s.otg.Close()
	_ = s.store.Close()
}

func (s *sys) Ops() []string {
	var base []string
	u := s.universe
	for _, r := range u {
		base = append(base, "defres "+r)
	}
	for _, t := range s.types {
		for _, a := range u {
			for _, b := range u {
				base = append(base, "defrel "+a+" "+t+" "+b)
			}
		}
	}
	for _, r := range u {
		base = append(base, "delres "+r)
	}
	for _, t := range s.types {
		for _, a := range u {
			for _, b := range u {
				if a != b {
					base = append(base, "delrel "+a+" "+t+" "+b)
				}
			}
		}
	}
	// batch forms
	for i := 0; i < len(u); i++ {
		j := (i + 1) % len(u)
		k := (i + 2) % len(u)
		base = append(base, "delmany "+u[i]+" "+u[j])
		base = append(base, "one2many "+u[i]+" "+s.types[0]+" "+u[j]+" "+u[k])
		base = append(base, "one2many "+u[i]+" "+s.types[0]+" "+u[k]+" "+u[i])
	}
	var ops []string
	if s.multiTx {
		if s.tx == nil {
			ops = append(ops, "begin")
		} else {
			ops = append(ops, "commit", "abort")
		}
		return append(ops, base...)
	}
	for _, b := range base {
		ops = append(ops, b, "txc:"+b, "txa:"+b)
	}
	return ops
}

func (s *sys) Apply(op string) (string, error) {
	switch op {
	case "begin":
		s.tx = s.db.OpenTx()
		s.txm = s.m.clone()
		return "ok", nil
	case "commit":
		if err := s.tx.Commit(ctx); err != nil {
			return "", fmt.Errorf("commit: %v", err)
		}
		_ = s.tx.Close()
		s.m, s.tx, s.txm = s.txm, nil, nil
		return "ok", nil
	case "abort":
		_ = s.tx.Close()
		s.tx, s.txm = nil, nil
		return "ok", nil
	}
	mode := "direct"
	if strings.HasPrefix(op, "txc:") {
		mode, op = "commit", op[4:]
	} else if strings.HasPrefix(op, "txa:") {
		mode, op = "abort", op[4:]
	}
	if s.tx != nil {
		return s.apply1(op, s.tx, s.txm)
	}
	if mode == "direct" {
		return s.apply1(op, nil, s.m)
	}
	tx := s.db.OpenTx()
	view := s.m.clone()
	before := s.m.canon()
	o, err := s.apply1(op, tx, view)
	if err != nil {
		_ = tx.Close()
		return o, err
	}
	if mode == "commit" {
		if err := tx.Commit(ctx); err != nil {
			_ = tx.Close()
			return "", fmt.Errorf("commit: %v", err)
		}
		s.m = view
	}
	_ = tx.Close()
	if mode == "abort" && s.m.canon() != before {
		panic("model changed on abort")
	}
	return o + "/" + mode, nil
}

func (s *sys) apply1(op string, tx gorp.Tx, m *gmodel) (string, error) {
	f := strings.Fields(op)
	w := s.otg.NewWriter(tx)
	switch f[0] {
	case "defres":
		if err := w.DefineResource(ctx, pid(f[1])); err != nil {
			return "", vk.Violationf("defres-error", "DefineResource(%s) failed: %v", f[1], err)
		}
		m.res[f[1]] = true
		return "ok", nil
	case "delres", "delmany":
		var err error
		if f[0] == "delres" {
			err = w.DeleteResource(ctx, pid(f[1]))
		} else {
			err = w.DeleteManyResources(ctx, []ontology.ID{pid(f[1]), pid(f[2])})
		}
		if err != nil {
			return "", vk.Violationf("delres-error", "%s failed: %v", op, err)
		}
		for _, r := range f[1:] {
			delete(m.res, r)
			for e := range m.edges {
				if e.from == r || e.to == r {
					delete(m.edges, e)
				}
			}
		}
		return "ok", nil
	case "delrel":
		if err := w.DeleteRelationship(ctx, pid(f[1]), ontology.RelationshipType(f[2]), pid(f[3])); err != nil {
			return "", vk.Violationf("delrel-error", "%s failed: %v", op, err)
		}
		delete(m.edges, edge{f[1], f[2], f[3]})
		return "ok", nil
	case "defrel":
		a, t, b := f[1], f[2], f[3]
		err := w.DefineRelationship(ctx, pid(a), ontology.RelationshipType(t), pid(b))
		e := edge{a, t, b}
		shape := fmt.Sprintf("%s(%s,%s)", f[0], shapeOf(a, b, m), t)
		switch {
		case !m.res[a] || !m.res[b]:
			if err == nil {
				return "", vk.Violationf("defrel-accepted-missing-endpoint:"+shape, "DefineRelationship(%s) succeeded although an endpoint does not exist; model %s", e, m.canon())
			}
			return "refused-missing", nil
		case m.edges[e]:
			if err != nil {
				return "", vk.Violationf("defrel-existing-not-noop:"+shape, "DefineRelationship(%s) of an existing edge returned %v; model %s", e, err, m.canon())
			}
			return "ok-noop", nil
		case m.reaches(b, a):
			if err == nil {
				return "", vk.Violationf("defrel-accepted-cycle:"+shape, "DefineRelationship(%s) succeeded although %s reaches %s: the graph is now cyclic; model before %s", e, b, a, m.canon())
			}
			if !errors.Is(err, graph.ErrCyclicDependency) {
				return "refused-cycle-othererr", nil
			}
			return "refused-cycle", nil
		default:
			if err != nil {
				return "", vk.Violationf("defrel-refused-legal:"+shape, "DefineRelationship(%s) refused with %q although both ends exist and %s does not reach %s; model %s", e, err, b, a, m.canon())
			}
			m.edges[e] = true
			return "ok", nil
		}
	case "one2many":
		a, t := f[1], f[2]
		tos := f[3:]
		var ids []ontology.ID
		for _, x := range tos {
			ids = append(ids, pid(x))
		}
		err := w.DefineFromOneToManyRelationships(ctx, pid(a), ontology.RelationshipType(t), ids)
		legal := m.res[a]
		cyc := false
		for _, b := range tos {
			if !m.res[b] {
				legal = false
			}
		}
		if legal {
			for _, b := range tos {
				if !m.edges[edge{a, t, b}] && m.reaches(b, a) {
					cyc = true
				}
			}
		}
		switch {
		case !legal:
			if err == nil {
				return "", vk.Violationf("one2many-accepted-missing-endpoint", "%s succeeded although an endpoint does not exist; model %s", op, m.canon())
			}
			return "refused-missing", nil
		case cyc:
			if err == nil {
				return "", vk.Violationf("one2many-accepted-cycle", "%s succeeded although it closes a cycle; model before %s", op, m.canon())
			}
			return "refused-cycle", nil
		default:
			if err != nil {
				return "", vk.Violationf("one2many-refused-legal", "%s refused with %q although legal; model %s", op, err, m.canon())
			}
			for _, b := range tos {
				m.edges[edge{a, t, b}] = true
			}
			return "ok", nil
		}
	}
	return "", fmt.Errorf("unknown op %q", op)
}

// shapeOf describes the identifier relation of the two ends (used in fingerprints so that a
// finding is identified by the input shape, not by one concrete op sequence).
func shapeOf(a, b string, m *gmodel) string {
	switch {
	case a == b:
		return "self"
	case strings.HasPrefix(a, b) || strings.HasPrefix(b, a):
		return "prefix-ids"
	}
	for r := range m.res {
		if r != b && strings.HasPrefix(r, b) || r != a && strings.HasPrefix(r, a) {
			return "prefix-sibling"
		}
	}
	return "plain"
}

func (s *sys) Canon() string {
	c := s.m.canon()
	if s.tx != nil {
		c += " TX{" + s.txm.canon() + "}"
	}
	// digest of the real tables: paths are merged only if the implementation state agrees too
	return c + " real:" + s.rawDigest(nil) + "|" + s.rawDigest(s.tx)
}

func (s *sys) rawDigest(tx gorp.Tx) string {
	if tx == nil && s.tx == nil {
		tx = nil
	}
	h := gorp.OverrideTx(s.db, tx)
	var rels []ontology.Relationship
	_ = gorp.NewRetrieve[string, ontology.Relationship]().Entries(&rels).Exec(ctx, h)
	var ress []ontology.Resource
	_ = gorp.NewRetrieve[string, ontology.Resource]().Entries(&ress).Exec(ctx, h)
	var out []string
	for _, r := range rels {
		out = append(out, r.GorpKey())
	}
	for _, r := range ress {
		out = append(out, r.ID.String())
	}
	sort.Strings(out)
	return strings.Join(out, ",")
}

func idStrs(rs []ontology.Resource) []string {
	var out []string
	for _, r := range rs {
		out = append(out, r.ID.String())
	}
	return uniq(out)
}

func (s *sys) checkView(tx gorp.Tx, m *gmodel, name string) error {
	h := gorp.OverrideTx(s.db, tx)
	// raw tables
	var rels []ontology.Relationship
	if err := gorp.NewRetrieve[string, ontology.Relationship]().Entries(&rels).Exec(ctx, h); err != nil {
		return fmt.Errorf("raw relationship scan: %v", err)
	}
	var got []string
	for _, r := range rels {
		got = append(got, edge{r.From.String(), string(r.Type), r.To.String()}.String())
	}
	var want []string
	for e := range m.edges {
		want = append(want, e.String())
	}
	sort.Strings(got)
	sort.Strings(want)
	if !slices.Equal(got, want) {
		return vk.Violationf("edge-table-mismatch", "[%s] relationship table %v, model edges %v (resources %s)", name, got, want, m.canon())
	}
	var ress []ontology.Resource
	if err := gorp.NewRetrieve[string, ontology.Resource]().Entries(&ress).Exec(ctx, h); err != nil {
		return fmt.Errorf("raw resource scan: %v", err)
	}
	gotR := idStrs(ress)
	var wantR []string
	for r := range m.res {
		wantR = append(wantR, r)
	}
	wantR = uniq(append(wantR, ontology.RootID.String()))
	if !slices.Equal(gotR, wantR) {
		return vk.Violationf("resource-table-mismatch", "[%s] resource table %v, model %v", name, gotR, wantR)
	}
	for _, r := range rels {
		if !m.res[r.From.String()] || !m.res[r.To.String()] {
			return vk.Violationf("dangling-edge", "[%s] relationship %v has a missing endpoint", name, r)
		}
	}
	// traversals
	for _, r := range s.universe {
		has, err := s.otg.NewWriter(tx).HasResource(ctx, pid(r))
		if err != nil || has != m.res[r] {
			return vk.Violationf("hasresource-mismatch", "[%s] HasResource(%s)=%v,%v model %v", name, r, has, err, m.res[r])
		}
		if !m.res[r] {
			continue
		}
		for _, dir := range []string{"children", "parents"} {
			tr := ontology.ChildrenTraverser
			if dir == "parents" {
				tr = ontology.ParentsTraverser
			}
			var out []ontology.Resource
			if err := s.otg.NewRetrieve().WhereIDs(pid(r)).TraverseTo(tr).Entries(&out).Exec(ctx, tx); err != nil {
				return vk.Violationf("traverse-error:"+dir, "[%s] %s(%s): %v; model %s", name, dir, r, err, m.canon())
			}
			wantN := m.next([]string{r}, "parent", dir == "children")
			if g := idStrs(out); !slices.Equal(g, wantN) {
				return vk.Violationf("traverse-mismatch:"+dir, "[%s] %s(%s)=%v, graph search says %v; model %s", name, dir, r, g, wantN, m.canon())
			}
			var out2 []ontology.Resource
			if err := s.otg.NewRetrieve().WhereIDs(pid(r)).TraverseTo(tr).TraverseTo(tr).Entries(&out2).Exec(ctx, tx); err != nil {
				return vk.Violationf("traverse2-error:"+dir, "[%s] %s^2(%s): %v; model %s", name, dir, r, err, m.canon())
			}
			want2 := m.next(wantN, "parent", dir == "children")
			if g := idStrs(out2); !slices.Equal(g, want2) {
				return vk.Violationf("traverse2-mismatch:"+dir, "[%s] %s^2(%s)=%v, graph search says %v; model %s", name, dir, r, g, want2, m.canon())
			}
		}
		// descendants: iterate children to fixpoint through the real traverser
		seen := map[string]bool{}
		front := []ontology.ID{pid(r)}
		for steps := 0; len(front) > 0; steps++ {
			if steps > len(s.universe)+1 {
				return vk.Violationf("descendants-unbounded", "[%s] descendant walk from %s does not terminate: graph is cyclic; model %s", name, r, m.canon())
			}
			var out []ontology.Resource
			if err := s.otg.NewRetrieve().WhereIDs(front...).TraverseTo(ontology.ChildrenTraverser).Entries(&out).Exec(ctx, tx); err != nil {
				return vk.Violationf("descendants-error", "[%s] descendants(%s): %v", name, r, err)
			}
			front = nil
			for _, o := range out {
				if !seen[o.ID.String()] {
					seen[o.ID.String()] = true
					front = append(front, o.ID)
				}
			}
		}
		var gotD, wantD []string
		for k := range seen {
			gotD = append(gotD, k)
		}
		for _, x := range s.universe {
			if x != r && m.res[x] && reachesTyped(m, r, x, "parent") {
				wantD = append(wantD, x)
			}
		}
		sort.Strings(gotD)
		sort.Strings(wantD)
		if !slices.Equal(gotD, wantD) {
			return vk.Violationf("descendants-mismatch", "[%s] descendants(%s)=%v, graph search says %v; model %s", name, r, gotD, wantD, m.canon())
		}
	}
	// HasRelationship for all pairs
	for e := range m.edges {
		ok, err := s.otg.NewWriter(tx).HasRelationship(ctx, pid(e.from), ontology.RelationshipType(e.typ), pid(e.to))
		if err != nil || !ok {
			return vk.Violationf("hasrelationship-mismatch", "[%s] HasRelationship(%s)=%v,%v but the edge exists", name, e, ok, err)
		}
	}
	// acyclicity of the model graph itself (the model only admits acyclic edges; cross-check)
	for e := range m.edges {
		if m.reaches(e.to, e.from) {
			return vk.Violationf("cyclic", "[%s] graph is cyclic through %s; %s", name, e, m.canon())
		}
	}
	return nil
}

func reachesTyped(m *gmodel, a, b, typ string) bool {
	seen := map[string]bool{a: true}
	st := []string{a}
	for len(st) > 0 {
		x := st[len(st)-1]
		st = st[:len(st)-1]
		for e := range m.edges {
			if e.typ == typ && e.from == x && !seen[e.to] {
				if e.to == b {
					return true
				}
				seen[e.to] = true
				st = append(st, e.to)
			}
		}
	}
	return false
}

func (s *sys) Check() error {
	if err := s.checkView(nil, s.m, "db"); err != nil {
		return err
	}
	if s.tx != nil {
		return s.checkView(s.tx, s.txm, "tx")
	}
	return nil
}

type scenario struct {
	name     string
	universe []string
	types    []string
	multiTx  bool
	depth    int
}

func main() {
	r := vk.New("C16", "model_checking")
	var scs []scenario
	if r.Quick() {
		scs = []scenario{
			{"single-op tx variants, 4 ids, 1 type", []string{"t:1", "t:10", "u:1", "ut:1"}, []string{"parent"}, false, 6},
			{"multi-op transactions, 3 ids, 1 type", []string{"t:1", "t:10", "u:1"}, []string{"parent"}, true, 6},
			{"3 ids, 2 types", []string{"t:1", "t:10", "u:1"}, []string{"parent", "x"}, false, 5},
		}
	} else {
		scs = []scenario{
			{"single-op tx variants, 4 ids, 1 type", []string{"t:1", "t:10", "u:1", "ut:1"}, []string{"parent"}, false, 12},
			{"multi-op transactions, 3 ids, 1 type", []string{"t:1", "t:10", "u:1"}, []string{"parent"}, true, 8},
			{"4 ids, 2 types", []string{"t:1", "t:10", "u:1", "ut:1"}, []string{"parent", "x"}, false, 6},
			{"5 ids, 2 types", []string{"t:1", "t:10", "t:11", "u:1", "ut:1"}, []string{"parent", "x"}, false, 5},
		}
	}
	mk := func(sc scenario) seqx.Config {
		return seqx.Config{Name: sc.name, MaxDepth: sc.depth, Seed: r.Seed,
			New: func() (seqx.Sys, error) { return newSys(sc.universe, sc.types, sc.multiTx) }}
	}
	if r.Replay != "" {
		v, err := vk.LoadReplay(r.Replay)
		if err != nil {
			fmt.Fprintln(os.Stderr, err)
			os.Exit(2)
		}
		if v.Scenario == twoTxName {
			for _, c := range twoTxCases() {
				if len(v.Trace) == 1 && c.String() == v.Trace[0] {
					err := runTwoTx(c)
					var vv *vk.Violation
					if errors.As(err, &vv) {
						vv.Trace, vv.Scenario = v.Trace, v.Scenario
						r.Report(vv)
					} else if err != nil {
						r.HarnessError("replay: %v", err)
					} else {
						vk.NoRepro()
					}
				}
			}
			r.Finish()
		}
		for _, sc := range append(scs, scenario{"5 ids, 2 types", []string{"t:1", "t:10", "t:11", "u:1", "ut:1"}, []string{"parent", "x"}, false, 5}) {
			if sc.name == v.Scenario {
				if err := seqx.Replay(mk(sc), v.Trace); err != nil {
					var vv *vk.Violation
					if errors.As(err, &vv) {
						vv.Trace, vv.Scenario = v.Trace, v.Scenario
						r.Report(vv)
					} else {
						r.HarnessError("replay: %v", err)
					}
				} else {
					vk.NoRepro()
				}
				break
			}
		}
		r.Finish()
	}
	for i, sc := range scs {
		cfg := mk(sc)
		// split the remaining budget evenly over the remaining scenarios
		cfg.Deadline = time.Now().Add(r.Left() / time.Duration(len(scs)-i))
		st := seqx.Explore(r, cfg)
		seqx.Merge(r, st)
	}
	twoTxPart(r)
	r.Set("rule", "BFS over define/delete resource, define/delete relationship (all ordered pairs incl. self-edges), delete-many and one-to-many, each directly / in a committed tx / in an aborted tx (and multi-op transactions), over identifiers that are string prefixes/suffixes of one another; dedup on (resources, typed edges[, tx view]); every new state: raw tables == model, parents/children/2-hop/descendant traversals == graph search, in the committed view and in the open tx")
	r.Assume("memkv storage; go1.26.8 toolchain; relationship types share one graph for cycle detection (as the implementation's descendant walk does)")
	r.Finish()
}
