// C06 — see package kvx. This binary reports the C06 class of violations.
package main

import (
	"fmt"
	"os"
	"time"

	"github.com/synnaxlabs/aspen/zverif/kvx"
	"github.com/synnaxlabs/x/errors"
	"verifkit/seqx"
	"verifkit/vk"
)

type sc struct {
	name  string
	S     []kvx.Op
	depth int
}

type rsc struct {
	name  string
	seed  []string
	depth int
}

func mkr(x rsc, seed int64) seqx.Config {
	return seqx.Config{Name: x.name, MaxDepth: x.depth, Seed: seed, Workers: 8,
		New: func() (seqx.Sys, error) { return newRsys(x.seed) }}
}

func main() {
	r := vk.New("C06", "model_checking")
	q := r.Quick()
	d := func(a, b int) int {
		if q {
			return a
		}
		return b
	}
	scs := []sc{
		{"S1 one key: equal versions from two leaseholders, newer delete", []kvx.Op{{Key: "k1", Ver: 1, LH: 2}, {Key: "k1", Ver: 1, LH: 3}, {Key: "k1", Ver: 2, LH: 2, Del: true}}, d(5, 7)},
		{"S2 two keys, three versions", []kvx.Op{{Key: "k1", Ver: 2, LH: 2}, {Key: "k1", Ver: 3, LH: 2}, {Key: "k2", Ver: 1, LH: 3}, {Key: "k2", Ver: 1, LH: 2, Del: true}}, d(4, 6)},
	}
	mk := func(x sc) seqx.Config {
		return seqx.Config{Name: x.name, MaxDepth: x.depth, Seed: r.Seed, Workers: 8,
			New: func() (seqx.Sys, error) { return kvx.New(x.S, "C06") }}
	}
	if r.Replay != "" {
		v, err := vk.LoadReplay(r.Replay)
		if err != nil {
			fmt.Fprintln(os.Stderr, err)
			os.Exit(2)
		}
		for _, x := range []rsc{{"R1 two nodes, writes / deliveries / restarts from empty", nil, 6}, {"R2 two nodes, node 2 holds a key of its own", []string{"set 2 c"}, 6}} {
			if x.name == v.Scenario {
				if err := seqx.Replay(mkr(x, r.Seed), v.Trace); err != nil {
					var vv *vk.Violation
					if errors.As(err, &vv) {
						vv.Trace, vv.Scenario = v.Trace, v.Scenario
						r.Report(vv)
					} else {
						r.HarnessError("replay: %v", err)
					}
				} else {
					vk.NoRepro()
				}
			}
		}
		if v.Scenario == r4name {
			for _, c := range r4cases() {
				if len(v.Trace) == 1 && c.String() == v.Trace[0] {
					err := runR4(c)
					var vv *vk.Violation
					if errors.As(err, &vv) {
						vv.Trace, vv.Scenario = v.Trace, v.Scenario
						r.Report(vv)
					} else if err != nil {
						r.HarnessError("replay: %v", err)
					} else {
						vk.NoRepro()
					}
				}
			}
		}
		if v.Scenario == r3name {
			for _, c := range r3cases() {
				if len(v.Trace) == 1 && c.String() == v.Trace[0] {
					err := runR3(c)
					var vv *vk.Violation
					if errors.As(err, &vv) {
						vv.Trace, vv.Scenario = v.Trace, v.Scenario
						r.Report(vv)
					} else if err != nil {
						r.HarnessError("replay: %v", err)
					} else {
						vk.NoRepro()
					}
				}
			}
		}
		for _, x := range scs {
			if x.name == v.Scenario {
				if err := seqx.Replay(mk(x), v.Trace); err != nil {
					var vv *vk.Violation
					if errors.As(err, &vv) {
						vv.Trace, vv.Scenario = v.Trace, v.Scenario
						r.Report(vv)
					} else {
						r.HarnessError("replay: %v", err)
					}
				} else {
					vk.NoRepro()
				}
			}
		}
		r.Finish()
	}
	rscs := []rsc{
		{"R1 two nodes, writes / deliveries / restarts from empty", nil, d(4, 5)},
		{"R2 two nodes, node 2 holds a key of its own", []string{"set 2 c"}, d(4, 6)},
	}
	if os.Getenv("C06_ONLY") == "R3" {
		scs, rscs = nil, nil
	}
	total := len(scs) + len(rscs)
	for i, x := range scs {
		cfg := mk(x)
		cfg.Deadline = time.Now().Add(r.Left() / time.Duration(total-i))
		seqx.Merge(r, seqx.Explore(r, cfg))
	}
	for i, x := range rscs {
		cfg := mkr(x, r.Seed)
		cfg.Deadline = time.Now().Add(r.Left() / time.Duration(len(rscs)-i))
		seqx.Merge(r, seqx.Explore(r, cfg))
	}
	recovery3Part(r)
	r.Set("rule", "BFS over deliveries into the real ingress pipeline of one aspen kv node (kv.Open): each operation of the set delivered 1-2 times, alone or in two-op batches, in any order, interleaved with local writes of the host on a key it leases and with a subscriber attaching mid-traffic; a sentinel transaction is awaited after every step so the asynchronous pipeline and observers have drained; dedup on (stored digests and values, delivery counts); recovery part: BFS over writes/deletes through either of two real kv nodes (forwarded to the leaseholder), delivery of one node's whole state to the other, and restarts (kv.Close + kv.Open on the same engine = real start-up recovery): no record regresses, a restarted node holds every peer operation at or above its old high-water mark, after a full exchange both nodes hold identical records")
	r.Assume("in-memory freighter mock transports and memkv; gossip emitters idle (1h interval) so that deliveries are exactly the harness's; versions of host-led operations come from the real version assigner; remote operations carry leaseholders 2 and 3")
	r.Finish()
}
