package main

// Three-node recovery part of C06: a restarting node recovers from its two peers at the same
// time, one transaction per peer. The two peers hold different versions of one key (they have
// not converged yet). Enumerated: which peer holds the newer version, what the two versions
// are (set/set, set/delete, delete/set), which peer's recovery stream completes last, and
// whether the late stream is released as soon as the other peer's operations are visible in
// the restarting node's store or at once. The completion order of the two streams is the
// environment's (a recovery message delivered late); the harness decides it by holding the
// end-of-stream of one of them back.
//
// Judged: after start-up recovery the node holds, for the key, the newest of what its peers
// sent (an applied operation is never replaced by an older one), whatever the order.

import (
	"context"
	"fmt"
	"sync"
	"time"

	"github.com/synnaxlabs/aspen/internal/cluster"
	"github.com/synnaxlabs/aspen/internal/cluster/gossip"
	"github.com/synnaxlabs/aspen/internal/cluster/pledge"
	"github.com/synnaxlabs/aspen/internal/kv"
	"github.com/synnaxlabs/aspen/internal/kv/kvmock"
	"github.com/synnaxlabs/aspen/internal/node"
	"github.com/synnaxlabs/freighter"
	"github.com/synnaxlabs/x/address"
	"github.com/synnaxlabs/x/change"
	"github.com/synnaxlabs/x/errors"
	xkv "github.com/synnaxlabs/x/kv"
	"github.com/synnaxlabs/x/kv/memkv"
	"github.com/synnaxlabs/x/query"
	"github.com/synnaxlabs/x/version"
	"verifkit/vk"
)

// gatedRecovery wraps the recovery stream client of the restarting node: the end of the stream
// towards the address slow is reported only once release is closed.
type gatedRecovery struct {
	kv.RecoveryTransportClient
	slow    address.Address
	release chan struct{}
}

func (g *gatedRecovery) Stream(c context.Context, target address.Address) (kv.RecoveryTransportClientStream, error) {
	s, err := g.RecoveryTransportClient.Stream(c, target)
	if err != nil || target != g.slow {
		return s, err
	}
	return &gatedStream{RecoveryTransportClientStream: s, release: g.release}, nil
}

type gatedStream struct {
	kv.RecoveryTransportClientStream
	release chan struct{}
}

func (s *gatedStream) Receive() (kv.RecoveryResponse, error) {
	res, err := s.RecoveryTransportClientStream.Receive()
	if err != nil && errors.Is(err, freighter.EOF) {
		<-s.release
	}
	return res, err
}

type r3case struct {
	newerAt int    // 2 or 3: the peer holding the newer version
	shape   string // older/newer variants: set-set, set-del, del-set
	slow    int    // the peer whose stream completes last
	eager   bool   // release the late stream at once instead of after the other peer's data is visible
}

func (c r3case) String() string {
	rel := "released once the other peer's operations are stored"
	if c.eager {
		rel = "released at once"
	}
	return fmt.Sprintf("newer version at node %d, %s, stream from node %d completes last (%s)", c.newerAt, c.shape, c.slow, rel)
}

func digestOf(eng xkv.DB, key string) (rec, bool, error) {
	dig, err := kv.VerifDigest(ctx, eng, []byte(key))
	if errors.Is(err, query.ErrNotFound) {
		return rec{}, false, nil
	}
	if err != nil {
		return rec{}, false, err
	}
	r := rec{ver: int64(dig.Version), lh: dig.Leaseholder, del: dig.Variant == change.VariantDelete}
	if v, closer, err := eng.Get(ctx, []byte(key)); err == nil {
		r.val = string(v)
		_ = closer.Close()
	}
	return r, true, nil
}

// runR3 executes one case on a fresh three-node cluster and returns a violation or nil.
func runR3(c r3case) (verr error) {
	defer func() {
		if p := recover(); p != nil {
			verr = fmt.Errorf("panic: %v", p)
		}
	}()
	base := kv.Config{RecoveryThreshold: 12, GossipInterval: time.Hour}
	b := kvmock.NewBuilder(base, cluster.Config{Gossip: gossip.Config{Interval: 10 * time.Millisecond}, Pledge: pledge.Config{RetryInterval: 5 * time.Millisecond}})
	defer func() { _ = b.Close() }()
	var eng [4]xkv.DB
	var db [4]*kv.DB
	for i := 1; i <= 3; i++ {
		eng[i] = memkv.New()
		d, err := b.New(ctx, kv.Config{Engine: eng[i]}, cluster.Config{})
		if err != nil {
			return err
		}
		db[i] = d
	}
	defer func() {
		for i := 1; i <= 3; i++ {
			_ = eng[i].Close()
		}
	}()
	deadline := time.Now().Add(60 * time.Second)
	for {
		ok := true
		for i := 1; i <= 3; i++ {
			if len(b.ClusterAPIs[node.Key(i)].Nodes()) != 3 {
				ok = false
			}
		}
		if ok {
			break
		}
		if time.Now().After(deadline) {
			return fmt.Errorf("cluster members did not learn each other within 60s")
		}
		time.Sleep(2 * time.Millisecond)
		vk.Beat()
	}
	// The key is leased to the peer that will hold the newer version; its first operation is
	// handed to the other peer as a gossip message, the second stays with the leaseholder.
	lh, other := c.newerAt, 5-c.newerAt
	write := func(del bool, val string) error {
		if del {
			return db[lh].Delete(ctx, []byte("k"))
		}
		return db[lh].Set(ctx, []byte("k"), []byte(val))
	}
	firstDel, secondDel := c.shape == "del-set", c.shape == "set-del"
	if firstDel {
		// a delete needs something to delete for the leaseholder to version it the same way
		if err := write(false, "w0"); err != nil {
			return err
		}
	}
	if err := write(firstDel, "w1"); err != nil {
		return err
	}
	older, ok, err := digestOf(eng[lh], "k")
	if err != nil || !ok {
		return fmt.Errorf("leaseholder has no record after its first write: %v", err)
	}
	op := kv.Operation{Change: xkv.Change{Key: []byte("k"), Variant: change.VariantSet, Value: []byte(older.val)}, Leaseholder: older.lh}
	op.Version = version.Counter(older.ver)
	if older.del {
		op.Variant, op.Value = change.VariantDelete, nil
	}
	addr := b.ClusterAPIs[node.Key(other)].Host().Address
	if _, err := b.OpNet.UnaryClient().Send(ctx, addr, kv.TxRequest{Sender: node.Key(lh), Operations: []kv.Operation{op}}); err != nil {
		return err
	}
	deadline = time.Now().Add(60 * time.Second)
	for {
		if have, ok, _ := digestOf(eng[other], "k"); ok && !newer(older, have) {
			break
		}
		if time.Now().After(deadline) {
			return fmt.Errorf("node %d did not store the delivered operation within 60s", other)
		}
		time.Sleep(time.Millisecond)
		vk.Beat()
	}
	if err := write(secondDel, "w2"); err != nil {
		return err
	}
	newest, _, err := digestOf(eng[lh], "k")
	if err != nil {
		return err
	}
	if !newer(newest, older) {
		return fmt.Errorf("the second write did not get a newer version: %v then %v", older, newest)
	}
	// restart node 1 (it holds nothing: high-water mark 0) with gated recovery streams
	if err := db[1].Close(); err != nil {
		return fmt.Errorf("close node 1: %w", err)
	}
	cl := b.ClusterAPIs[1]
	self := cl.Host().Address
	gate := &gatedRecovery{RecoveryTransportClient: b.RecoveryNet.StreamClient(), slow: b.ClusterAPIs[node.Key(c.slow)].Host().Address, release: make(chan struct{})}
	fast := 5 - c.slow
	fastHolds := older
	if fast == lh {
		fastHolds = newest
	}
	var once sync.Once
	open := func() { once.Do(func() { close(gate.release) }) }
	stop := make(chan struct{})
	go func() {
		if c.eager {
			open()
			return
		}
		// released once the fast peer's operation is visible in node 1's store - or after 3 s,
		// for an implementation that recovers from one peer after the other
		limit := time.After(3 * time.Second)
		for {
			if have, ok, _ := digestOf(eng[1], "k"); ok && !newer(fastHolds, have) {
				open()
				return
			}
			select {
			case <-limit:
				open()
				return
			case <-stop:
				open()
				return
			case <-time.After(time.Millisecond):
			}
		}
	}()
	type opened struct {
		db  *kv.DB
		err error
	}
	res := make(chan opened, 1)
	go func() {
		d, err := kv.Open(ctx, base.Override(kv.Config{
			Engine: eng[1], Cluster: cl,
			BatchTransportClient: b.OpNet.UnaryClient(), BatchTransportServer: b.OpNet.UnaryServer(self),
			FeedbackTransportClient: b.FeedbackNet.UnaryClient(), FeedbackTransportServer: b.FeedbackNet.UnaryServer(self),
			LeaseTransportClient: b.LeaseNet.UnaryClient(), LeaseTransportServer: b.LeaseNet.UnaryServer(self),
			RecoveryTransportClient: gate, RecoveryTransportServer: b.RecoveryNet.StreamServer(self),
		}))
		res <- opened{d, err}
	}()
	var o opened
	select {
	case o = <-res:
	case <-time.After(120 * time.Second):
		close(stop)
		return vk.Violationf("recovery-never-returns", "kv.Open of the restarting node did not return within 120s (%s)", c)
	}
	close(stop)
	if o.err != nil {
		return vk.Violationf("restart-fails", "kv.Open of node 1 on its own engine failed: %v (%s)", o.err, c)
	}
	b.KVs[1] = o.db
	have, ok, err := digestOf(eng[1], "k")
	if err != nil {
		return err
	}
	if !ok || newer(newest, have) {
		return vk.Violationf("recovery-from-two-peers:newer-operation-replaced-by-older",
			"node 1 recovered from node %d (holding %v) and node %d (holding %v) at the same time and ends with %v (present=%v): the newer operation it was sent did not survive (%s)",
			lh, newest, other, older, have, ok, c)
	}
	return nil
}

// ---- recovery against gossip ingress (two nodes)
//
// While node 1's start-up recovery holds what node 2 streamed (version 1 of the key), node 2
// writes version 2 and its gossip reaches node 1's ingress pipeline, which is already running.
// The end of the recovery stream is held back until the gossiped operation is visible in node
// 1's store. Afterwards node 1 must hold version 2.

type r4case struct {
	shape  string // set-set, set-del, del-set
	during bool   // the gossip arrives while the recovery stream is still open (else: after recovery)
}

func (c r4case) String() string {
	when := "after recovery has finished"
	if c.during {
		when = "while the recovery stream is open"
	}
	return fmt.Sprintf("%s, the newer operation arrives by gossip %s", c.shape, when)
}

func r4cases() []r4case {
	var out []r4case
	for _, shape := range []string{"set-set", "set-del", "del-set"} {
		for _, d := range []bool{true, false} {
			out = append(out, r4case{shape, d})
		}
	}
	return out
}

const r4name = "R4 two nodes: start-up recovery against gossip ingress of a newer operation"

func runR4(c r4case) (verr error) {
	defer func() {
		if p := recover(); p != nil {
			verr = fmt.Errorf("panic: %v", p)
		}
	}()
	base := kv.Config{RecoveryThreshold: 12, GossipInterval: time.Hour}
	b := kvmock.NewBuilder(base, cluster.Config{Gossip: gossip.Config{Interval: 10 * time.Millisecond}, Pledge: pledge.Config{RetryInterval: 5 * time.Millisecond}})
	defer func() { _ = b.Close() }()
	var eng [3]xkv.DB
	var db [3]*kv.DB
	for i := 1; i <= 2; i++ {
		eng[i] = memkv.New()
		d, err := b.New(ctx, kv.Config{Engine: eng[i]}, cluster.Config{})
		if err != nil {
			return err
		}
		db[i] = d
	}
	defer func() {
		for i := 1; i <= 2; i++ {
			_ = eng[i].Close()
		}
	}()
	deadline := time.Now().Add(60 * time.Second)
	for {
		if len(b.ClusterAPIs[1].Nodes()) == 2 && len(b.ClusterAPIs[2].Nodes()) == 2 {
			break
		}
		if time.Now().After(deadline) {
			return fmt.Errorf("cluster members did not learn each other within 60s")
		}
		time.Sleep(2 * time.Millisecond)
		vk.Beat()
	}
	write := func(del bool, val string) error {
		if del {
			return db[2].Delete(ctx, []byte("k"))
		}
		return db[2].Set(ctx, []byte("k"), []byte(val))
	}
	firstDel, secondDel := c.shape == "del-set", c.shape == "set-del"
	if firstDel {
		if err := write(false, "w0"); err != nil {
			return err
		}
	}
	if err := write(firstDel, "w1"); err != nil {
		return err
	}
	older, ok, err := digestOf(eng[2], "k")
	if err != nil || !ok {
		return fmt.Errorf("node 2 has no record after its first write: %v", err)
	}
	if err := db[1].Close(); err != nil {
		return fmt.Errorf("close node 1: %w", err)
	}
	cl := b.ClusterAPIs[1]
	self := cl.Host().Address
	gate := &gatedRecovery{RecoveryTransportClient: b.RecoveryNet.StreamClient(), slow: b.ClusterAPIs[2].Host().Address, release: make(chan struct{})}
	var once sync.Once
	open := func() { once.Do(func() { close(gate.release) }) }
	if !c.during {
		open()
	}
	type opened struct {
		db  *kv.DB
		err error
	}
	res := make(chan opened, 1)
	go func() {
		d, err := kv.Open(ctx, base.Override(kv.Config{
			Engine: eng[1], Cluster: cl,
			BatchTransportClient: b.OpNet.UnaryClient(), BatchTransportServer: b.OpNet.UnaryServer(self),
			FeedbackTransportClient: b.FeedbackNet.UnaryClient(), FeedbackTransportServer: b.FeedbackNet.UnaryServer(self),
			LeaseTransportClient: b.LeaseNet.UnaryClient(), LeaseTransportServer: b.LeaseNet.UnaryServer(self),
			RecoveryTransportClient: gate, RecoveryTransportServer: b.RecoveryNet.StreamServer(self),
		}))
		res <- opened{d, err}
	}()
	var o opened
	got := false
	if !c.during {
		select {
		case o = <-res:
			got = true
		case <-time.After(120 * time.Second):
			return vk.Violationf("recovery-never-returns", "kv.Open of the restarting node did not return within 120s (%s)", c)
		}
		if o.err != nil {
			return vk.Violationf("restart-fails", "kv.Open of node 1 failed: %v (%s)", o.err, c)
		}
	} else {
		// give the recovery stream time to be received (it cannot finish: its end is held back)
		time.Sleep(50 * time.Millisecond)
	}
	// node 2 writes the newer operation and its gossip reaches node 1
	if err := write(secondDel, "w2"); err != nil {
		open()
		return err
	}
	newest, _, err := digestOf(eng[2], "k")
	if err != nil || !newer(newest, older) {
		open()
		return fmt.Errorf("the second write did not get a newer version: %v then %v (%v)", older, newest, err)
	}
	op := kv.Operation{Change: xkv.Change{Key: []byte("k"), Variant: change.VariantSet, Value: []byte(newest.val)}, Leaseholder: newest.lh}
	op.Version = version.Counter(newest.ver)
	if newest.del {
		op.Variant, op.Value = change.VariantDelete, nil
	}
	if _, err := b.OpNet.UnaryClient().Send(ctx, self, kv.TxRequest{Sender: 2, Operations: []kv.Operation{op}}); err != nil {
		open()
		return fmt.Errorf("gossip delivery to node 1: %w", err)
	}
	// wait until the ingress pipeline has stored it (or, for an implementation in which the
	// ingress waits for recovery, for 3 s), then let the recovery stream end
	limit := time.Now().Add(3 * time.Second)
	for {
		if have, ok, _ := digestOf(eng[1], "k"); ok && !newer(newest, have) {
			break
		}
		if c.during && time.Now().After(limit) {
			break
		}
		if !c.during && time.Now().After(limit.Add(57*time.Second)) {
			return vk.Violationf("gossiped-operation-never-stored", "node 1 did not store the gossiped %v within 60s (%s)", newest, c)
		}
		time.Sleep(time.Millisecond)
		vk.Beat()
	}
	open()
	if !got {
		select {
		case o = <-res:
		case <-time.After(120 * time.Second):
			return vk.Violationf("recovery-never-returns", "kv.Open of the restarting node did not return within 120s (%s)", c)
		}
		if o.err != nil {
			return vk.Violationf("restart-fails", "kv.Open of node 1 failed: %v (%s)", o.err, c)
		}
	}
	b.KVs[1] = o.db
	// the gossiped operation may still be on its way through the pipeline
	deadline = time.Now().Add(60 * time.Second)
	for {
		have, ok, err := digestOf(eng[1], "k")
		if err != nil {
			return err
		}
		if ok && !newer(newest, have) {
			// stays that way?
			time.Sleep(20 * time.Millisecond)
			if again, ok2, _ := digestOf(eng[1], "k"); !ok2 || newer(newest, again) {
				return vk.Violationf("recovery-against-gossip:newer-operation-replaced-by-older",
					"node 1 stored the gossiped %v and then fell back to %v (present=%v) (%s)", newest, again, ok2, c)
			}
			return nil
		}
		if time.Now().After(deadline) {
			return vk.Violationf("recovery-against-gossip:newer-operation-replaced-by-older",
				"node 1 was sent %v by gossip while its start-up recovery held the older %v from node 2; it ends with %v (present=%v) (%s)", newest, older, have, ok, c)
		}
		time.Sleep(2 * time.Millisecond)
		vk.Beat()
	}
}

func r3cases() []r3case {
	var out []r3case
	for _, newerAt := range []int{2, 3} {
		for _, shape := range []string{"set-set", "set-del", "del-set"} {
			for _, slow := range []int{2, 3} {
				for _, eager := range []bool{false, true} {
					out = append(out, r3case{newerAt, shape, slow, eager})
				}
			}
		}
	}
	return out
}

const r3name = "R3 three nodes: recovery from two peers that hold different versions"

// recovery3Part runs every case; a failing case is executed again (twice) before it is reported.
func recovery3Part(r *vk.Run) {
	n, unconfirmed := 0, 0
	for _, c := range r3cases() {
		vk.Beat()
		err := runR3(c)
		n++
		if err == nil {
			continue
		}
		var v *vk.Violation
		if !errors.As(err, &v) {
			r.HarnessError("%s: %s: %v", r3name, c, err)
			continue
		}
		again := false
		for k := 0; k < 2 && !again; k++ {
			var v2 *vk.Violation
			if e2 := runR3(c); e2 != nil && errors.As(e2, &v2) {
				again, v = true, v2
			}
		}
		if !again {
			unconfirmed++
			continue
		}
		v.Scenario, v.Trace = r3name, []string{c.String()}
		r.Report(v)
	}
	for _, c := range r4cases() {
		vk.Beat()
		err := runR4(c)
		n++
		if err == nil {
			continue
		}
		var v *vk.Violation
		if !errors.As(err, &v) {
			r.HarnessError("%s: %s: %v", r4name, c, err)
			continue
		}
		again := false
		for k := 0; k < 2 && !again; k++ {
			var v2 *vk.Violation
			if e2 := runR4(c); e2 != nil && errors.As(e2, &v2) {
				again, v = true, v2
			}
		}
		if !again {
			unconfirmed++
			continue
		}
		v.Scenario, v.Trace = r4name, []string{c.String()}
		r.Report(v)
	}
	r.Add("recovery_from_two_peers_cases", n)
	r.Add("transitions", n)
	r.Add("traces_validated_against_impl", n)
	if unconfirmed > 0 {
		r.Add("unconfirmed_observations", unconfirmed)
	}
}
