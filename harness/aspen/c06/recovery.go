package main

// Recovery part of C06: two real aspen kv nodes (kv.Open through kvmock, operation gossip
// idle), explicit-state BFS over local writes and deletes through either node (forwarded
// to the key's leaseholder by the real lease proxy), delivery of one node's whole
// operation state to the other through the real ingress pipeline (a gossip message), and
// restarts of either node (kv.Close + kv.Open on the same engine, which runs the real
// start-up recovery against the peer).
//
// Judged on every transition: no node's record for a key is ever replaced by an older
// one; after a restart the node holds every operation of its peer that is at or above the
// high-water mark it had when it went down and supersedes what it held (the contract of
// start-up recovery); whenever both nodes have received each other's whole state they
// hold identical records.

import (
	"context"
	"fmt"
	"os"
	"sort"
	"strings"
	"time"

	"github.com/synnaxlabs/aspen/internal/cluster"
	"github.com/synnaxlabs/aspen/internal/cluster/gossip"
	"github.com/synnaxlabs/aspen/internal/cluster/pledge"
	"github.com/synnaxlabs/aspen/internal/kv"
	"github.com/synnaxlabs/aspen/internal/kv/kvmock"
	"github.com/synnaxlabs/aspen/internal/node"
	"github.com/synnaxlabs/x/change"
	"github.com/synnaxlabs/x/errors"
	xkv "github.com/synnaxlabs/x/kv"
	"github.com/synnaxlabs/x/kv/memkv"
	"github.com/synnaxlabs/x/query"
	"github.com/synnaxlabs/x/version"
	"verifkit/vk"
)

var ctx = context.Background()

type rec struct {
	ver int64
	lh  node.Key
	del bool
	val string
}

func (r rec) String() string { return fmt.Sprintf("v%d.lh%d del=%v %q", r.ver, r.lh, r.del, r.val) }

func newer(a, b rec) bool { // a supersedes b
	if a.ver != b.ver {
		return a.ver > b.ver
	}
	return a.lh > b.lh
}

type rsys struct {
	b       *kvmock.Builder
	base    kv.Config
	db      [3]*kv.DB
	eng     [3]xkv.DB
	n       int // writes so far (values are unique)
	restart [3]int
	sets    int
	seed    []string
	hist    []string // ops applied after the seed
	probe   bool
	seeding bool
}

var rkeys = []string{"a", "b", "c"}

func newRsys(seed []string) (s *rsys, err error) {
	defer func() {
		if p := recover(); p != nil {
			err = fmt.Errorf("setup panic: %v", p)
		}
	}()
	base := kv.Config{RecoveryThreshold: 12, GossipInterval: time.Hour}
	b := kvmock.NewBuilder(base, cluster.Config{Gossip: gossip.Config{Interval: 10 * time.Millisecond}, Pledge: pledge.Config{RetryInterval: 5 * time.Millisecond}})
	s = &rsys{b: b, base: base, seed: seed}
	for i := 1; i <= 2; i++ {
		s.eng[i] = memkv.New()
		db, err := b.New(ctx, kv.Config{Engine: s.eng[i]}, cluster.Config{})
		if err != nil {
			return nil, err
		}
		s.db[i] = db
	}
	// both members must resolve each other before leases can be forwarded
	deadline := time.Now().Add(30 * time.Second)
	for {
		_, e1 := b.ClusterAPIs[1].Resolve(2)
		_, e2 := b.ClusterAPIs[2].Resolve(1)
		if e1 == nil && e2 == nil {
			break
		}
		if time.Now().After(deadline) {
			return nil, fmt.Errorf("cluster members did not learn each other within 30s")
		}
		time.Sleep(2 * time.Millisecond)
	}
	s.seeding = true
	for _, op := range seed {
		if _, err := s.Apply(op); err != nil {
			return nil, fmt.Errorf("seed %q: %w", op, err)
		}
	}
	s.seeding = false
	return s, nil
}

func (s *rsys) Close() {
	_ = s.b.Close()
	for i := 1; i <= 2; i++ {
		_ = s.eng[i].Close()
	}
}

func (s *rsys) read(n int) (map[string]rec, error) {
	out := map[string]rec{}
	for _, k := range rkeys {
		dig, err := kv.VerifDigest(ctx, s.eng[n], []byte(k))
		if errors.Is(err, query.ErrNotFound) {
			continue
		}
		if err != nil {
			return nil, err
		}
		r := rec{ver: int64(dig.Version), lh: dig.Leaseholder, del: dig.Variant == change.VariantDelete}
		if v, closer, err := s.eng[n].Get(ctx, []byte(k)); err == nil {
			r.val = string(v)
			_ = closer.Close()
		}
		out[k] = r
	}
	return out, nil
}

func (s *rsys) highWater(n int) int64 {
	m, _ := s.read(n)
	var hw int64
	for _, r := range m {
		if r.ver > hw {
			hw = r.ver
		}
	}
	return hw
}

func (s *rsys) Ops() []string {
	var ops []string
	if s.sets < 4 {
		for n := 1; n <= 2; n++ {
			for _, k := range rkeys[:2] {
				ops = append(ops, fmt.Sprintf("set %d %s", n, k))
			}
		}
		ops = append(ops, "del 1 a", "del 2 b")
	}
	ops = append(ops, "send 1 2", "send 2 1")
	for n := 1; n <= 2; n++ {
		if s.restart[n] < 1 {
			ops = append(ops, fmt.Sprintf("restart %d", n))
		}
	}
	return ops
}

// wait until node n's engine holds for key k a record at least as new as want
func (s *rsys) await(n int, k string, want rec) error {
	deadline := time.Now().Add(180 * time.Second)
	for {
		m, err := s.read(n)
		if err != nil {
			return err
		}
		if have, ok := m[k]; ok && !newer(want, have) {
			return nil
		}
		if time.Now().After(deadline) {
			return fmt.Errorf("node %d did not apply %s %v within 180s", n, k, want)
		}
		time.Sleep(time.Millisecond)
		vk.Beat()
	}
}

func (s *rsys) Apply(op string) (string, error) {
	if !s.seeding {
		s.hist = append(s.hist, op)
	}
	f := strings.Fields(op)
	var n int
	fmt.Sscan(f[1], &n)
	before := [3]map[string]rec{}
	for i := 1; i <= 2; i++ {
		m, err := s.read(i)
		if err != nil {
			return "", err
		}
		before[i] = m
	}
	obs := "ok"
	switch f[0] {
	case "set", "del":
		s.n++
		s.sets++
		var err error
		if f[0] == "set" {
			err = s.db[n].Set(ctx, []byte(f[2]), []byte(fmt.Sprintf("w%d", s.n)))
		} else {
			err = s.db[n].Delete(ctx, []byte(f[2]))
		}
		if err != nil {
			return "", fmt.Errorf("%s: %w", op, err)
		}
	case "send":
		var m int
		fmt.Sscan(f[2], &m)
		var ops []kv.Operation
		for _, k := range rkeys {
			r, ok := before[n][k]
			if !ok {
				continue
			}
			o := kv.Operation{Change: xkv.Change{Key: []byte(k), Variant: change.VariantSet}, Leaseholder: r.lh}
			o.Version = version.Counter(r.ver)
			if r.del {
				o.Variant = change.VariantDelete
			} else {
				o.Value = []byte(r.val)
			}
			ops = append(ops, o)
		}
		if len(ops) == 0 {
			return "nothing", nil
		}
		addr := s.b.ClusterAPIs[node.Key(m)].Host().Address
		if _, err := s.b.OpNet.UnaryClient().Send(ctx, addr, kv.TxRequest{Sender: node.Key(n), Operations: ops}); err != nil {
			return "", fmt.Errorf("%s: %w", op, err)
		}
		// the ingress pipeline is asynchronous: wait until everything that supersedes has landed
		for _, k := range rkeys {
			if r, ok := before[n][k]; ok {
				if err := s.await(m, k, r); err != nil {
					return "", err
				}
			}
		}
	case "restart":
		s.restart[n]++
		hw := s.highWater(n)
		peer := 3 - n
		if err := s.db[n].Close(); err != nil {
			return "", fmt.Errorf("close node %d: %w", n, err)
		}
		c := s.b.ClusterAPIs[node.Key(n)]
		addr := c.Host().Address
		db, err := kv.Open(ctx, s.base.Override(kv.Config{
			Engine: s.eng[n], Cluster: c,
			BatchTransportClient: s.b.OpNet.UnaryClient(), BatchTransportServer: s.b.OpNet.UnaryServer(addr),
			FeedbackTransportClient: s.b.FeedbackNet.UnaryClient(), FeedbackTransportServer: s.b.FeedbackNet.UnaryServer(addr),
			LeaseTransportClient: s.b.LeaseNet.UnaryClient(), LeaseTransportServer: s.b.LeaseNet.UnaryServer(addr),
			RecoveryTransportClient: s.b.RecoveryNet.StreamClient(), RecoveryTransportServer: s.b.RecoveryNet.StreamServer(addr),
		}))
		if err != nil {
			return "", vk.Violationf("restart-fails", "kv.Open of node %d on its own engine failed: %v", n, err)
		}
		s.db[n] = db
		s.b.KVs[node.Key(n)] = db
		after, err := s.read(n)
		if err != nil {
			return "", err
		}
		// contract of start-up recovery: every peer operation at or above the old high-water mark
		for k, pr := range before[peer] {
			if pr.ver < hw {
				continue
			}
			have, ok := after[k]
			if !ok || newer(pr, have) {
				return obs, vk.Violationf("recovery-misses-operation-at-or-above-high-water",
					"node %d restarted with high-water mark %d; its peer holds %s = %v (version >= %d), after recovery node %d holds %v (present=%v)",
					n, hw, k, pr, hw, n, have, ok)
			}
		}
		obs = fmt.Sprintf("hw=%d", hw)
	}
	if os.Getenv("C06_DEBUG") != "" {
		m1, _ := s.read(1)
		m2, _ := s.read(2)
		fmt.Fprintf(os.Stderr, "after %-12s node1=%v node2=%v\n", op, m1, m2)
	}
	// nothing ever goes backwards
	for i := 1; i <= 2; i++ {
		after, err := s.read(i)
		if err != nil {
			return "", err
		}
		for k, b := range before[i] {
			a, ok := after[k]
			if !ok {
				return obs, vk.Violationf("record-disappears", "%s: node %d held %s = %v, now holds nothing", op, i, k, b)
			}
			if newer(b, a) {
				return obs, vk.Violationf("applied-operation-replaced-by-older", "%s: node %d held %s = %v, now holds the older %v", op, i, k, b, a)
			}
			if !newer(a, b) && a != b {
				return obs, vk.Violationf("record-changes-under-same-version", "%s: node %d held %s = %v, now %v", op, i, k, b, a)
			}
		}
	}
	return obs, nil
}

func (s *rsys) Canon() string {
	var sb strings.Builder
	for i := 1; i <= 2; i++ {
		m, _ := s.read(i)
		var ks []string
		for k := range m {
			ks = append(ks, k)
		}
		sort.Strings(ks)
		for _, k := range ks {
			fmt.Fprintf(&sb, "%s=%v;", k, m[k])
		}
		fmt.Fprintf(&sb, "|r%d|", s.restart[i])
	}
	fmt.Fprintf(&sb, "sets=%d", s.sets)
	return sb.String()
}

// Check: after a full exchange in both directions the two nodes hold identical records.
// The exchange is run on a fresh instance that replays this one's history, so that this
// instance stays exactly the state that was reached.
func (s *rsys) Check() error {
	if s.probe {
		return nil
	}
	p, err := newRsysProbe(s.seed)
	if err != nil {
		return err
	}
	defer p.Close()
	for _, op := range s.hist {
		if _, err := p.Apply(op); err != nil {
			return err
		}
	}
	for _, op := range []string{"send 1 2", "send 2 1"} {
		if _, err := p.Apply(op); err != nil {
			return err
		}
	}
	a, err := p.read(1)
	if err != nil {
		return err
	}
	b, err := p.read(2)
	if err != nil {
		return err
	}
	for _, k := range rkeys {
		if a[k] != b[k] {
			return vk.Violationf("nodes-differ-after-full-exchange", "after both nodes received each other's whole state: node 1 holds %s = %v, node 2 holds %v", k, a[k], b[k])
		}
	}
	return nil
}

func newRsysProbe(seed []string) (*rsys, error) {
	p, err := newRsys(seed)
	if p != nil {
		p.probe = true
		p.hist = nil
	}
	return p, err
}
