// Package kvx drives the real aspen kv pipeline of one node (kv.Open through kvmock, with a
// real idle peer) by delivering crafted gossip transactions through the in-memory
// operation transport, interleaved with local writes of the host, and observes the
// engine (value + digest of every key) and the change observers. Shared by C06 and C13.
package kvx

import (
	"context"
	"fmt"
	"os"
	"sort"
	"strings"
	"sync"
	"sync/atomic"
	"time"

	"github.com/synnaxlabs/aspen/internal/cluster"
	"github.com/synnaxlabs/aspen/internal/cluster/gossip"
	"github.com/synnaxlabs/aspen/internal/cluster/pledge"
	"github.com/synnaxlabs/aspen/internal/kv"
	"github.com/synnaxlabs/aspen/internal/kv/kvmock"
	"github.com/synnaxlabs/aspen/internal/node"
	"github.com/synnaxlabs/x/address"
	"github.com/synnaxlabs/x/change"
	"github.com/synnaxlabs/x/errors"
	xkv "github.com/synnaxlabs/x/kv"
	"github.com/synnaxlabs/x/kv/memkv"
	"github.com/synnaxlabs/x/query"
	"github.com/synnaxlabs/x/version"
	"verifkit/vk"
)

var ctx = context.Background()

// Op is a remote operation of the delivered set.
type Op struct {
	Key string
	Ver int64
	LH  node.Key
	Del bool
}

func (o Op) value() string {
	if o.Del {
		return ""
	}
	return fmt.Sprintf("%s@%d.%d", o.Key, o.Ver, o.LH)
}

func (o Op) String() string {
	if o.Del {
		return fmt.Sprintf("del(%s v%d lh%d)", o.Key, o.Ver, o.LH)
	}
	return fmt.Sprintf("set(%s v%d lh%d)", o.Key, o.Ver, o.LH)
}

func (o Op) real() kv.Operation {
	v := change.VariantSet
	if o.Del {
		v = change.VariantDelete
	}
	return kv.Operation{Change: xkv.Change{Key: []byte(o.Key), Value: []byte(o.value()), Variant: v}, Version: version.Counter(o.Ver), Leaseholder: o.LH}
}

type stored struct {
	ver   int64
	lh    node.Key
	del   bool
	value string
}

func (s stored) String() string {
	return fmt.Sprintf("v%d.lh%d del=%v %q", s.ver, s.lh, s.del, s.value)
}

type note struct {
	key, value string
	del        bool
}

type observer struct {
	mu    sync.Mutex
	notes []note
	ch    chan struct{}
}

func (o *observer) handle(_ context.Context, r xkv.TxReader) {
	o.mu.Lock()
	for c := range r {
		o.notes = append(o.notes, note{string(c.Key), string(c.Value), c.Variant == change.VariantDelete})
	}
	o.mu.Unlock()
	select {
	case o.ch <- struct{}{}:
	default:
	}
}

func (o *observer) take() []note {
	o.mu.Lock()
	defer o.mu.Unlock()
	n := o.notes
	o.notes = nil
	return n
}

// Sys is one fresh 2-node cluster; node 1 is under test.
type Sys struct {
	S        []Op
	builder  *kvmock.Builder
	db       *kv.DB
	engine   xkv.DB
	addr     string
	model    map[string]stored
	counter  int64 // host version counter
	used     []int
	sent     int
	obsAll   *observer
	obsNoHos *observer
	obsLate  *observer
	locals   int
	faults   int
	eng      *failEngine
	Prop     string // "C06" or "C13": which class of violations is reported
}

func New(S []Op, prop string) (s *Sys, err error) {
	defer func() {
		if p := recover(); p != nil {
			err = fmt.Errorf("setup panic: %v", p)
		}
	}()
	b := kvmock.NewBuilder(
		kv.Config{RecoveryThreshold: 5, GossipInterval: time.Hour},
		cluster.Config{Gossip: gossip.Config{Interval: 20 * time.Millisecond}, Pledge: pledge.Config{RetryInterval: 5 * time.Millisecond}},
	)
	eng := &failEngine{DB: memkv.New()}
	db1, err := b.New(ctx, kv.Config{Engine: eng}, cluster.Config{})
	if err != nil {
		return nil, err
	}
	if _, err = b.New(ctx, kv.Config{}, cluster.Config{}); err != nil {
		return nil, err
	}
	s = &Sys{S: S, builder: b, db: db1, model: map[string]stored{}, used: make([]int, len(S)), Prop: prop, eng: eng}
	host := b.ClusterAPIs[1].Host()
	s.addr = string(host.Address)
	s.engine = eng
	s.obsAll = &observer{ch: make(chan struct{}, 1)}
	s.obsNoHos = &observer{ch: make(chan struct{}, 1)}
	db1.OnChange(s.obsAll.handle)
	db1.NewObservable(kv.IgnoreHostLeaseholder).OnChange(s.obsNoHos.handle)
	return s, nil
}

func (s *Sys) Close() {
	_ = s.builder.Close()
	_ = s.eng.DB.Close()
}

// failEngine is the node's storage engine with one injectable fault: the next transaction
// commit is refused. A gossip delivery whose storing transaction fails must leave the store
// and every subscriber exactly as if it had not arrived.
type failEngine struct {
	xkv.DB
	armed atomic.Bool
	// armedW: the next write (Set or Delete) of the key wkey into a transaction is refused
	armedW atomic.Bool
	wkey   atomic.Value // string
}

func (e *failEngine) hits(key []byte) bool {
	k, _ := e.wkey.Load().(string)
	return string(key) == k && e.armedW.CompareAndSwap(true, false)
}

type failTx struct {
	xkv.Tx
	e *failEngine
}

func (e *failEngine) OpenTx() xkv.Tx { return &failTx{Tx: e.DB.OpenTx(), e: e} }

func (t *failTx) Set(ctx context.Context, key, value []byte, opts ...any) error {
	if t.e.hits(key) {
		return errors.New("injected: storage refused the write")
	}
	return t.Tx.Set(ctx, key, value, opts...)
}

func (t *failTx) Delete(ctx context.Context, key []byte, opts ...any) error {
	if t.e.hits(key) {
		return errors.New("injected: storage refused the write")
	}
	return t.Tx.Delete(ctx, key, opts...)
}

func (t *failTx) Commit(ctx context.Context, opts ...any) error {
	if t.e.armed.CompareAndSwap(true, false) {
		return errors.New("injected: storage refused the commit")
	}
	return t.Tx.Commit(ctx, opts...)
}

func (s *Sys) Ops() []string {
	var ops []string
	for i := range s.S {
		if s.used[i] < 2 {
			ops = append(ops, fmt.Sprintf("d %d", i))
		}
	}
	for i := range s.S {
		for j := range s.S {
			if i != j && s.used[i] < 2 && s.used[j] < 2 {
				ops = append(ops, fmt.Sprintf("d %d %d", i, j))
			}
		}
	}
	if s.faults < 1 {
		for i := range s.S {
			if s.used[i] < 2 {
				ops = append(ops, fmt.Sprintf("df %d", i), fmt.Sprintf("dw %d", i))
			}
		}
	}
	if st, ok := s.model["k1"]; (!ok || st.lh == 1) && s.locals < 2 {
		ops = append(ops, "loc set", "loc del")
		if s.faults < 1 {
			ops = append(ops, "locw set")
		}
	}
	if s.obsLate == nil {
		ops = append(ops, "sub")
	}
	return ops
}

func supersedes(o Op, st stored, exists bool) bool {
	if !exists {
		return true
	}
	if o.Ver == st.ver {
		return o.LH > st.lh
	}
	return o.Ver > st.ver
}

// sync waits until everything delivered so far went through the ingress pipeline and the
// observers: a sentinel transaction is pushed and awaited in the engine and at observer A.
func (s *Sys) sync() error {
	s.sent++
	key := fmt.Sprintf("zz-sentinel-%d", s.sent)
	op := kv.Operation{Change: xkv.Change{Key: []byte(key), Value: []byte("s"), Variant: change.VariantSet}, Version: version.Counter(100000 + s.sent), Leaseholder: 2}
	if _, err := s.builder.OpNet.UnaryClient().Send(ctx, addrOf(s.addr), kv.TxRequest{Sender: 2, Operations: []kv.Operation{op}}); err != nil {
		return err
	}
	deadline := time.Now().Add(60 * time.Second)
	seen := func(o *observer) bool {
		o.mu.Lock()
		defer o.mu.Unlock()
		for _, n := range o.notes {
			if n.key == key {
				return true
			}
		}
		return false
	}
	for !(seen(s.obsAll) && seen(s.obsNoHos) && (s.obsLate == nil || seen(s.obsLate))) {
		if time.Now().After(deadline) {
			return fmt.Errorf("sentinel %s not observed within 60s", key)
		}
		select {
		case <-s.obsAll.ch:
		case <-s.obsNoHos.ch:
		case <-time.After(2 * time.Millisecond):
		}
		vk.Beat()
	}
	return nil
}

func (s *Sys) viol(class, fp, format string, a ...any) error {
	if class != s.Prop {
		return nil // judged by the other property's check
	}
	return vk.Violationf(fp, format, a...)
}

func (s *Sys) readStored(key string) (stored, bool, error) {
	dig, err := kv.VerifDigest(ctx, s.engine, []byte(key))
	if errors.Is(err, query.ErrNotFound) {
		return stored{}, false, nil
	}
	if err != nil {
		return stored{}, false, err
	}
	st := stored{ver: int64(dig.Version), lh: dig.Leaseholder, del: dig.Variant == change.VariantDelete}
	v, closer, err := s.engine.Get(ctx, []byte(key))
	if err == nil {
		st.value = string(v)
		_ = closer.Close()
	} else if !errors.Is(err, query.ErrNotFound) {
		return st, true, err
	}
	return st, true, nil
}

func strip(ns []note) []note {
	var out []note
	for _, n := range ns {
		if !strings.HasPrefix(n.key, "zz-sentinel") {
			out = append(out, n)
		}
	}
	return out
}

func (s *Sys) Apply(op string) (string, error) {
	f := strings.Fields(op)
	before := map[string]stored{}
	for k, v := range s.model {
		before[k] = v
	}
	var expectNotes []note // changes that alter stored state, in order
	hostLed := false
	switch f[0] {
	case "sub":
		s.obsLate = &observer{ch: make(chan struct{}, 1)}
		s.db.OnChange(s.obsLate.handle)
		if err := s.sync(); err != nil {
			return "", err
		}
		s.obsAll.take()
		s.obsNoHos.take()
		s.obsLate.take()
		return "ok", nil
	case "d":
		var batch []kv.Operation
		for _, x := range f[1:] {
			var i int
			fmt.Sscan(x, &i)
			o := s.S[i]
			s.used[i]++
			batch = append(batch, o.real())
			st, ok := s.model[o.Key]
			if supersedes(o, st, ok) {
				s.model[o.Key] = stored{o.Ver, o.LH, o.Del, o.value()}
				expectNotes = append(expectNotes, note{o.Key, o.value(), o.Del})
			}
		}
		if _, err := s.builder.OpNet.UnaryClient().Send(ctx, addrOf(s.addr), kv.TxRequest{Sender: 2, Operations: batch}); err != nil {
			return "", fmt.Errorf("deliver: %v", err)
		}
	case "df", "dw":
		// a delivery whose storing transaction is refused by the engine (df: at commit, dw: at
		// the first write into it): nothing is stored, nobody is notified; the same operation
		// delivered again later is a first delivery
		var i int
		fmt.Sscan(f[1], &i)
		s.used[i]++
		s.faults++
		armed := &s.eng.armed
		if f[0] == "dw" {
			armed = &s.eng.armedW
			s.eng.wkey.Store(s.S[i].Key)
		}
		armed.Store(true)
		if _, err := s.builder.OpNet.UnaryClient().Send(ctx, addrOf(s.addr), kv.TxRequest{Sender: 2, Operations: []kv.Operation{s.S[i].real()}}); err != nil {
			return "", fmt.Errorf("deliver: %v", err)
		}
		if f[0] == "dw" {
			// the write is only attempted if the operation supersedes what is stored; the
			// sentinel behind it tells when the pipeline is past it either way
			if err := s.sync(); err != nil {
				return "", err
			}
			s.eng.armedW.Store(false)
			break
		}
		// wait until the pipeline has consumed the fault
		for n := 0; armed.Load(); n++ {
			if n > 60000 {
				return "", fmt.Errorf("the refused commit was never attempted")
			}
			time.Sleep(time.Millisecond)
		}
	case "locw":
		// a local write whose storing transaction is refused by the engine at the write: it
		// must be reported as failed, and it must leave the store and every subscriber as they
		// were
		s.faults++
		s.locals++
		s.eng.wkey.Store("k1")
		s.eng.armedW.Store(true)
		err := s.db.Set(ctx, []byte("k1"), []byte(fmt.Sprintf("k1@lost%d", s.counter+1)))
		consumed := !s.eng.armedW.Load()
		s.eng.armedW.Store(false)
		if os.Getenv("KVX_DEBUG") != "" {
			st, ok, _ := s.readStored("k1")
			fmt.Fprintf(os.Stderr, "KVX locw: err=%v consumed=%v stored=%v present=%v\n", err, consumed, st, ok)
		}
		if consumed && err == nil {
			return "", vk.Violationf("local-write-acknowledged-although-storage-refused-it", "Set(k1) returned nil although the engine refused the write inside its transaction; stored: %v", s.model["k1"])
		}
		if !consumed {
			return "", fmt.Errorf("the injected write fault was not reached by a local Set")
		}
	case "loc":
		hostLed = true
		s.locals++
		s.counter++
		if f[1] == "set" {
			val := fmt.Sprintf("k1@local%d", s.counter)
			if err := s.db.Set(ctx, []byte("k1"), []byte(val)); err != nil {
				return "", fmt.Errorf("local set: %v", err)
			}
			s.model["k1"] = stored{s.counter, 1, false, val}
			expectNotes = append(expectNotes, note{"k1", val, false})
		} else {
			if err := s.db.Delete(ctx, []byte("k1")); err != nil {
				return "", fmt.Errorf("local delete: %v", err)
			}
			s.model["k1"] = stored{s.counter, 1, true, ""}
			expectNotes = append(expectNotes, note{"k1", "", true})
		}
	}
	if err := s.sync(); err != nil {
		return "", err
	}
	// C06 (a)+(b): stored (version, leaseholder) never decreases and equals the fold
	for _, k := range []string{"k1", "k2"} {
		got, ok, err := s.readStored(k)
		if err != nil {
			return "", fmt.Errorf("read stored: %v", err)
		}
		want, wok := s.model[k]
		b, bok := before[k]
		if bok && (!ok || got.ver < b.ver || (got.ver == b.ver && got.lh < b.lh)) {
			if e := s.viol("C06", "applied-op-replaced-by-older", "%s: key %s went from %v to %v (exists=%v)", op, k, b, got, ok); e != nil {
				return "", e
			}
		}
		if ok != wok || (ok && (got.ver != want.ver || got.lh != want.lh || got.del != want.del || (!got.del && got.value != want.value) || (got.del && got.value != ""))) {
			if e := s.viol("C06", "stored-not-max-of-applied", "%s: key %s holds %v (exists=%v), the highest (version, leaseholder) delivered so far is %v (exists=%v)", op, k, got, ok, want, wok); e != nil {
				return "", e
			}
		}
	}
	// C13: notifications == exactly the state-changing ops, once, in order. The sentinel
	// orders remote deliveries only; a host-led write reaches the observers on its own path,
	// so an observer that is still short of the expected notifications is given time.
	check := func(name string, o *observer, want []note) error {
		deadline := time.Now().Add(60 * time.Second)
		for {
			o.mu.Lock()
			n := len(strip(o.notes))
			o.mu.Unlock()
			if n >= len(want) || time.Now().After(deadline) {
				break
			}
			time.Sleep(time.Millisecond)
			vk.Beat()
		}
		got := strip(o.take())
		if fmt.Sprint(got) == fmt.Sprint(want) {
			return nil
		}
		kind := "missed-change"
		if len(got) > len(want) {
			kind = "stale-or-duplicate-notification"
		}
		return s.viol("C13", kind+":"+name, "%s: observer %s was notified of %v, the operations that changed stored state are %v", op, name, got, want)
	}
	if err := check("all", s.obsAll, expectNotes); err != nil {
		return "", err
	}
	wantFiltered := expectNotes
	if hostLed {
		wantFiltered = nil
	}
	if err := check("ignore-host-leaseholder", s.obsNoHos, wantFiltered); err != nil {
		return "", err
	}
	if s.obsLate != nil {
		if err := check("late-subscriber", s.obsLate, expectNotes); err != nil {
			return "", err
		}
	}
	if len(expectNotes) == 0 {
		return "no-change", nil
	}
	return fmt.Sprintf("changed%d", len(expectNotes)), nil
}

func (s *Sys) Canon() string {
	var ks []string
	for k, v := range s.model {
		ks = append(ks, k+"="+v.String())
	}
	sort.Strings(ks)
	real := ""
	for _, k := range []string{"k1", "k2"} {
		st, ok, _ := s.readStored(k)
		real += fmt.Sprintf("%s:%v/%v ", k, ok, st)
	}
	return fmt.Sprintf("%v used=%v locals=%d late=%v real:%s", ks, s.used, s.locals, s.obsLate != nil, real)
}

func (s *Sys) Check() error { return nil }

func addrOf(a string) address.Address { return address.Address(a) }
