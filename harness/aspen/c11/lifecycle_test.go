package main

// Membership lifecycle part of C11: every sequence of joins and member restarts, up to a
// depth, on the real cluster.Open over the freighter mock networks (sequential; the
// concurrent part is the schedx exploration). A node joins through any existing member -
// including one that has itself been restarted from its persisted state - and every member
// may be restarted once. Between operations membership gossip runs until every node knows
// every other one. Oracle after every operation: (U) no two nodes hold the same key;
// (C) every node, as soon as it is admitted, holds the key of the cluster it joined (the one
// the first member created); (K) a restarted member keeps its node key and cluster key.

import (
	"context"
	"fmt"
	"os"
	"sort"
	"strings"
	"time"

	"github.com/google/uuid"
	"github.com/synnaxlabs/aspen/internal/cluster"
	"github.com/synnaxlabs/aspen/internal/cluster/gossip"
	"github.com/synnaxlabs/aspen/internal/cluster/pledge"
	"github.com/synnaxlabs/aspen/internal/node"
	"github.com/synnaxlabs/freighter/mock"
	"github.com/synnaxlabs/x/address"
	"github.com/synnaxlabs/x/encoding/msgpack"
	"github.com/synnaxlabs/x/kv"
	"github.com/synnaxlabs/x/kv/memkv"
	"verifkit/seqx"
	"verifkit/vk"
)

var lifeStorageKey = []byte("verif.c11.cluster")

type lnode struct {
	c        *cluster.Cluster
	disk     kv.DB
	gsrv     *mock.UnaryServer[gossip.Message, gossip.Message]
	psrv     *mock.UnaryServer[pledge.Request, pledge.Response]
	peers    []address.Address
	key      node.Key
	restarts int
}

type lsys struct {
	gnet  *mock.Network[gossip.Message, gossip.Message]
	pnet  *mock.Network[pledge.Request, pledge.Response]
	nodes []*lnode
	ck    uuid.UUID
	max   int
}

func (s *lsys) cfg(n *lnode) cluster.Config {
	return cluster.Config{
		HostAddress: n.gsrv.Address,
		Pledge: pledge.Config{Peers: n.peers, TransportClient: s.pnet.UnaryClient(), TransportServer: n.psrv,
			RequestTimeout: 2 * time.Second, RetryInterval: 5 * time.Millisecond, RetryScale: 1.1, MaxProposals: 10},
		Gossip:     gossip.Config{TransportClient: s.gnet.UnaryClient(), TransportServer: n.gsrv, Interval: 5 * time.Millisecond},
		StorageKey: lifeStorageKey, Storage: n.disk, StorageFlushInterval: cluster.FlushOnEvery, Codec: msgpack.Codec,
	}
}

func (s *lsys) open(n *lnode) error {
	ctx, cancel := context.WithTimeout(context.Background(), 60*time.Second)
	defer cancel()
	c, err := cluster.Open(ctx, s.cfg(n))
	if err != nil {
		if c != nil {
			_ = c.Close()
		}
		return err
	}
	n.c = c
	return nil
}

func (s *lsys) add(via int) (*lnode, error) {
	n := &lnode{disk: memkv.New()}
	n.gsrv = s.gnet.UnaryServer("")
	n.psrv = s.pnet.UnaryServer(n.gsrv.Address)
	if via >= 0 {
		n.peers = []address.Address{s.nodes[via].gsrv.Address}
	} else {
		n.peers = []address.Address{}
	}
	if err := s.open(n); err != nil {
		return nil, err
	}
	n.key = n.c.HostKey()
	s.nodes = append(s.nodes, n)
	return n, nil
}

func newLsys(max int) (seqx.Sys, error) {
	s := &lsys{gnet: mock.NewNetwork[gossip.Message, gossip.Message](), pnet: mock.NewNetwork[pledge.Request, pledge.Response](), max: max}
	n, err := s.add(-1)
	if err != nil {
		return nil, err
	}
	s.ck = n.c.Key()
	return s, nil
}

func (s *lsys) Close() {
	for _, n := range s.nodes {
		if n.c != nil {
			_ = n.c.Close()
		}
		_ = n.disk.Close()
	}
}

func (s *lsys) Ops() []string {
	var ops []string
	if len(s.nodes) < s.max {
		for i := range s.nodes {
			ops = append(ops, fmt.Sprintf("join via %d", i+1))
		}
	}
	for i, n := range s.nodes {
		if n.restarts < 1 {
			ops = append(ops, fmt.Sprintf("restart %d", i+1))
		}
	}
	return ops
}

func (s *lsys) Apply(op string) (string, error) {
	var i int
	switch {
	case strings.HasPrefix(op, "join via "):
		fmt.Sscanf(op, "join via %d", &i)
		n, err := s.add(i - 1)
		if err != nil {
			return "", vk.Violationf("join-fails", "%s: cluster.Open of the joining node failed: %v", op, err)
		}
		if err := s.judge(op); err != nil {
			return "", err
		}
		return fmt.Sprintf("key %d", n.key), s.settle()
	case strings.HasPrefix(op, "restart "):
		fmt.Sscanf(op, "restart %d", &i)
		n := s.nodes[i-1]
		if err := n.c.Close(); err != nil {
			return "", fmt.Errorf("%s: close: %w", op, err)
		}
		n.c = nil
		n.restarts++
		if err := s.open(n); err != nil {
			return "", vk.Violationf("restart-fails", "%s: cluster.Open on the member's own storage failed: %v", op, err)
		}
		if k := n.c.HostKey(); k != n.key {
			return "", vk.Violationf("restart-changes-node-key", "%s: the member held node key %d, after the restart %d", op, n.key, k)
		}
		if err := s.judge(op); err != nil {
			return "", err
		}
		return "ok", s.settle()
	}
	return "", fmt.Errorf("bad op %q", op)
}

// settle waits until membership gossip has told every node about every other one. This part
// is about sequences of joins and restarts, not about stale views (those are the concurrent
// scenarios' business): a member that restarts loses its in-memory record of the keys it
// approved, and what then protects uniqueness is that its view already contains the nodes
// those keys went to.
func (s *lsys) settle() error {
	deadline := time.Now().Add(90 * time.Second)
	for {
		ok := true
		for _, n := range s.nodes {
			if len(n.c.Nodes()) != len(s.nodes) {
				ok = false
			}
		}
		if ok {
			return nil
		}
		if time.Now().After(deadline) {
			return fmt.Errorf("membership views did not converge within 90s: %s", s.Canon())
		}
		time.Sleep(2 * time.Millisecond)
		vk.Beat()
	}
}

func (s *lsys) judge(op string) error {
	if os.Getenv("C11_DEBUG") != "" {
		fmt.Fprintf(os.Stderr, "after %-12s %s\n", op, s.Canon())
	}
	seen := map[node.Key]int{}
	for i, n := range s.nodes {
		if j, ok := seen[n.key]; ok {
			return vk.Violationf("duplicate-key:lifecycle", "after %s nodes %d and %d both hold node key %d", op, j+1, i+1, n.key)
		}
		seen[n.key] = i
		if n.key == 0 {
			return vk.Violationf("zero-key:lifecycle", "after %s node %d holds node key 0", op, i+1)
		}
		if ck := n.c.Key(); ck != s.ck {
			return vk.Violationf("wrong-cluster-key:lifecycle", "after %s node %d (key %d) holds cluster key %v, the cluster's key is %v", op, i+1, n.key, ck, s.ck)
		}
	}
	return nil
}

func (s *lsys) Check() error { return nil }

func (s *lsys) Canon() string {
	var b strings.Builder
	for _, n := range s.nodes {
		var ks []int
		for k := range n.c.Nodes() {
			ks = append(ks, int(k))
		}
		sort.Ints(ks)
		fmt.Fprintf(&b, "[k%d r%d p%v v%v]", n.key, n.restarts, len(n.peers), ks)
	}
	return b.String()
}

func lifecycleCfg(r *vk.Run) seqx.Config {
	max, depth := 4, 6
	if !r.Quick() {
		max, depth = 5, 8
	}
	return seqx.Config{Name: "L1 joins through any member and member restarts (cluster.Open)", MaxDepth: depth, Seed: r.Seed,
		New: func() (seqx.Sys, error) { return newLsys(max) }, Deadline: time.Now().Add(r.Left() / 3)}
}

func lifecyclePart(r *vk.Run) {
	st := seqx.Explore(r, lifecycleCfg(r))
	r.Set("lifecycle", st)
	r.Add("lifecycle_states", st.States)
	r.Add("lifecycle_transitions", st.Transitions)
	if !st.Exhaustive {
		r.Set("lifecycle_exhaustive", false)
	}
}
