// C11 — node keys are unique under concurrent joins and juror failures.
//
// m members each run the real pledge.Arbitrate handler (own juror memory) with a
// membership view owned by the harness; k joining nodes run the real pledge.Pledge
// concurrently as harness threads under the schedx controlled scheduler. The transport is a
// harness UnaryClient: every Send is a scheduling point and an environment choice
// {deliver, fail before delivery, deliver but lose the reply}; request timeouts are fake
// time. Quorum selection (xrand.SubMap over math/rand and map iteration) is made
// deterministic by the runtime patches and varied through the map-offset dimension.
// Oracle: (U) no two completed pledges carry the same key, including against keys handed
// out before; (Q) a returned key was approved by a majority of the coordinating member's
// view; (C) the response carries the cluster key.
package main

import (
	"context"
	"fmt"
	"os"
	"sort"
	"strings"
	"sync"
	"testing"
	"time"

	"github.com/google/uuid"
	"github.com/synnaxlabs/alamos"
	"github.com/synnaxlabs/aspen/internal/cluster/pledge"
	"github.com/synnaxlabs/aspen/internal/node"
	"github.com/synnaxlabs/freighter"
	"github.com/synnaxlabs/x/address"
	"github.com/synnaxlabs/x/errors"
	"verifkit/schedx"
	"verifkit/seqx"
	"verifkit/vk"
)

var clusterKey = uuid.MustParse("c0000000-0000-0000-0000-000000000001")

type netw struct {
	mu       sync.Mutex
	handlers map[address.Address]func(context.Context, pledge.Request) (pledge.Response, error)
	faults   bool
	approved map[node.Key]map[address.Address]bool // key -> jurors that approved it
	log      []string
}

type server struct {
	n    *netw
	addr address.Address
}

func (s *server) Report() alamos.Report          { return alamos.Report{} }
func (s *server) Use(...freighter.Middleware)     {}
func (s *server) BindHandler(h func(context.Context, pledge.Request) (pledge.Response, error)) {
	s.n.mu.Lock()
	s.n.handlers[s.addr] = h
	s.n.mu.Unlock()
}

type client struct{ n *netw }

func (c *client) Report() alamos.Report      { return alamos.Report{} }
func (c *client) Use(...freighter.Middleware) {}

var errNet = errors.New("c11: injected network failure")

func (c *client) Send(ctx context.Context, target address.Address, req pledge.Request) (pledge.Response, error) {
	fate := 0
	if c.n.faults {
		fate = schedx.Choose(3, "send") // 0 deliver, 1 fail before delivery, 2 deliver but lose the reply
	} else {
		schedx.Point("send")
	}
	if ctx.Err() != nil {
		return pledge.Response{}, ctx.Err()
	}
	if fate == 1 {
		return pledge.Response{}, errNet
	}
	c.n.mu.Lock()
	h := c.n.handlers[target]
	c.n.mu.Unlock()
	if h == nil {
		return pledge.Response{}, errNet
	}
	res, err := h(ctx, req)
	if req.Key != 0 && err == nil {
		c.n.mu.Lock()
		if c.n.approved[req.Key] == nil {
			c.n.approved[req.Key] = map[address.Address]bool{}
		}
		c.n.approved[req.Key][target] = true
		c.n.mu.Unlock()
	}
	if fate == 2 {
		return pledge.Response{}, errNet
	}
	return res, err
}

type scenario struct {
	name    string
	members int
	// views[i] = keys member i+1 believes are in the cluster (besides the real members it knows)
	stale   bool // member 1 and 2 do not yet know node m+1, which joined through member 3 earlier
	joiners int
	faults  bool
}

func addrOf(k int) address.Address { return address.Address(fmt.Sprintf("m%d", k)) }

func body(sc scenario, verdict *string) schedx.Body {
	return func(t *testing.T, run func(threads ...func()) bool) string {
		n := &netw{handlers: map[address.Address]func(context.Context, pledge.Request) (pledge.Response, error){}, approved: map[node.Key]map[address.Address]bool{}}
		views := make([]node.Group, sc.members+1)
		var vmu sync.Mutex
		base := node.Group{}
		for k := 1; k <= sc.members; k++ {
			base[node.Key(k)] = node.Node{Key: node.Key(k), Address: addrOf(k)}
		}
		for i := 1; i <= sc.members; i++ {
			views[i] = base.Copy()
			idx := i
			cfg := pledge.Config{TransportClient: &client{n}, TransportServer: &server{n, addrOf(i)}, ClusterKey: clusterKey,
				RequestTimeout: 50 * time.Millisecond, RetryInterval: 10 * time.Millisecond, RetryScale: 1.125, MaxProposals: 4,
				Candidates: func() node.Group { vmu.Lock(); defer vmu.Unlock(); return views[idx].Copy() }}
			if err := pledge.Arbitrate(cfg); err != nil {
				return "setup: " + err.Error()
			}
		}
		type result struct {
			key node.Key
			ck  uuid.UUID
			err error
			via int
		}
		var given []result
		join := func(via int, timeout time.Duration) result {
			ctx, cancel := context.WithTimeout(context.Background(), timeout)
			defer cancel()
			res, err := pledge.Pledge(ctx, pledge.Config{TransportClient: &client{n}, TransportServer: &server{n, address.Address(fmt.Sprintf("j-%d", via))}, Peers: []address.Address{addrOf(via)},
				RequestTimeout: 50 * time.Millisecond, RetryInterval: 10 * time.Millisecond, RetryScale: 1.125, MaxProposals: 4,
				Candidates: func() node.Group { return node.Group{} }})
			return result{res.Key, res.ClusterKey, err, via}
		}
		if sc.stale {
			// an earlier, sequential join through member 3; only member 3 has learned about the new
			// node so far (gossip has not reached members 1 and 2)
			r := join(3, time.Second)
			if r.err != nil {
				return "setup join failed: " + r.err.Error()
			}
			given = append(given, r)
			vmu.Lock()
			views[3][r.key] = node.Node{Key: r.key, Address: address.Address("joined")}
			vmu.Unlock()
		}
		n.faults = sc.faults
		results := make([]result, sc.joiners)
		var threads []func()
		for j := 0; j < sc.joiners; j++ {
			threads = append(threads, func() { results[j] = join(1+j%sc.members, 400*time.Millisecond) })
		}
		dl := run(threads...)
		if dl {
			*verdict = "DEADLOCK"
			return "DEADLOCK"
		}
		// judge
		*verdict = "ok"
		all := append(append([]result{}, given...), results...)
		seen := map[node.Key]int{}
		var out []string
		for i, r := range all {
			if r.err != nil {
				out = append(out, fmt.Sprintf("join%d(via %d): error", i, r.via))
				continue
			}
			out = append(out, fmt.Sprintf("join%d(via %d): key %d", i, r.via, r.key))
			if prev, ok := seen[r.key]; ok {
				*verdict = fmt.Sprintf("duplicate-key: two nodes were admitted with key %d (joins %d and %d)", r.key, prev, i)
			}
			seen[r.key] = i
			if r.ck != clusterKey {
				*verdict = fmt.Sprintf("wrong-cluster-key: join %d received cluster key %v", i, r.ck)
			}
			// (Q) approved by a majority of the coordinating member's view
			vmu.Lock()
			vsize := len(views[r.via])
			vmu.Unlock()
			if sc.stale && i == 0 {
				vsize = sc.members
			}
			need := vsize/2 + 1
			got := 0
			for a := range n.approved[r.key] {
				if strings.HasPrefix(string(a), "m") {
					got++
				}
			}
			if got < need && *verdict == "ok" {
				*verdict = fmt.Sprintf("no-majority: key %d was handed out with %d approvals, the coordinator's view of %d members needs %d", r.key, got, vsize, need)
			}
		}
		sort.Strings(out)
		return strings.Join(out, "; ") + " => " + strings.SplitN(*verdict, ":", 2)[0]
	}
}

type viol struct {
	v       *vk.Violation
	choices []int
}

func (v *viol) Error() string { return v.v.Error() }

var (
	inflightSlot int
	inflightName string
)

func allScenarios(quick bool) []scenario {
	scs := []scenario{
		{"P1 3 members same view, 2 concurrent joins via members 1,2, no faults", 3, false, 2, false},
		{"P2 3 members same view, 2 concurrent joins, message faults", 3, false, 2, true},
		{"P3 3 members, members 1,2 stale about node 4 (joined via 3), 2 concurrent joins, faults", 3, true, 2, true},
	}
	if !quick {
		scs = append(scs, scenario{"P4 4 members same view, 3 concurrent joins, faults", 4, false, 3, true},
			scenario{"P5 1 member, 2 concurrent joins, faults", 1, false, 2, true})
	}
	return scs
}

// TestRace is the free-running pass: the same scenario bodies with real goroutines, built
// with -race. The cooperative scheduler preempts only at synchronisation operations and its
// hand-offs are happens-before edges that blind the race detector, so accesses that are not
// synchronised at all (two jurors' answers written to one variable, say) are looked for here.
func TestRace(t *testing.T) {
	rounds := 20
	if os.Getenv("VERIF_TIER") == "thorough" {
		rounds = 400
	}
	free := func(threads ...func()) bool {
		var wg sync.WaitGroup
		for _, f := range threads {
			wg.Add(1)
			go func() { defer wg.Done(); f() }()
		}
		wg.Wait()
		return false
	}
	for i := 0; i < rounds; i++ {
		for _, sc := range allScenarios(false) {
			sc.faults = false
			var res string
			_ = body(sc, &res)(t, free)
		}
	}
	fmt.Println("RACE-PASS rounds", rounds)
}

func TestCheck(t *testing.T) {
	r := vk.New("C11", "model_checking")
	quick := r.Quick()
	scs := allScenarios(quick)
	bound := 2
	offs := []uint64{0, 1, 2}
	if !quick {
		bound = 3
		offs = []uint64{0, 1, 2, 3, 5}
	}
	if r.Replay != "" {
		v, err := vk.LoadReplay(r.Replay)
		if err != nil {
			fmt.Fprintln(os.Stderr, err)
			os.Exit(2)
		}
		if strings.HasPrefix(v.Scenario, "L1 ") {
			if err := seqx.Replay(lifecycleCfg(r), v.Trace); err != nil {
				var vv *vk.Violation
				if errors.As(err, &vv) {
					vv.Scenario, vv.Trace = v.Scenario, v.Trace
					r.Report(vv)
				} else {
					r.HarnessError("replay: %v", err)
				}
			} else {
				vk.NoRepro()
			}
			r.Finish()
		}
		for _, sc := range append(scs, scenario{"P4 4 members same view, 3 concurrent joins, faults", 4, false, 3, true}, scenario{"P5 1 member, 2 concurrent joins, faults", 1, false, 2, true}) {
			if !strings.HasPrefix(v.Scenario, sc.name) {
				continue
			}
			var off uint64
			fmt.Sscanf(v.Scenario[len(sc.name):], " mapoff=%d", &off)
			var prefix []int
			for _, f := range strings.Fields(strings.Trim(v.Trace[0], "[]")) {
				var n int
				fmt.Sscan(f, &n)
				prefix = append(prefix, n)
			}
			var res string
			_, out, _ := schedx.RunOnce(t, schedx.Config{Body: body(sc, &res), MapOff: off}, prefix)
			if res != "ok" {
				vv := vk.Violationf(v.Fingerprint, "replayed: %s (%s)", res, out)
				vv.Scenario, vv.Trace = v.Scenario, v.Trace
				r.Report(vv)
			} else {
				vk.NoRepro()
			}
			break
		}
		r.Finish()
	}
	vk.FoldRace(r, "/zverif/")
	if os.Getenv("VERIF_SHARD") == "" {
		lifecyclePart(r)
	}
	shard, shards, child := r.Sharded(12)
	if !child && shards > 1 {
		finish(r, bound)
	}
	total, distinct := 0, 0
	exhaustive := true
	var subs []any
	n, k := len(scs)*len(offs), 0
	for _, sc := range scs {
		for _, off := range offs {
			var res string
			name := fmt.Sprintf("%s mapoff=%d", sc.name, off)
			inflightSlot, inflightName = shard, name
			cfg := schedx.Config{Name: name, Body: body(sc, &res), Preemptions: bound, MapOff: off, Shard: shard, Shards: shards,
				Deadline: time.Now().Add(r.Left() / time.Duration(n-k)), OnExec: vk.Beat, OnRun: func(p []int) { vk.Inflight(inflightSlot, inflightName, []string{fmt.Sprint(p)}) }, MaxSteps: 20000,
				Check: func(out string, dl bool, choices []int) error {
					if dl {
						return &viol{vk.Violationf("deadlock:"+sc.name[:2], "a pledge never returns under schedule %v", choices), choices}
					}
					if res != "ok" {
						return &viol{vk.Violationf(strings.SplitN(res, ":", 2)[0]+":"+sc.name[:2], "schedule %v: %s (%s)", choices, res, out), choices}
					}
					return nil
				}}
			k++
			st, err := schedx.Explore(t, cfg)
			total += st.Executions
			distinct += st.Distinct
			exhaustive = exhaustive && st.Exhaustive
			subs = append(subs, st)
			if err != nil {
				if vv, ok := err.(*viol); ok {
					vv.v.Scenario, vv.v.Trace = name, []string{fmt.Sprint(vv.choices)}
					r.Report(vv.v)
				} else {
					r.HarnessError("%v", err)
				}
			}
		}
		r.Sample(map[string]any{"scenario": sc.name, "members": sc.members, "concurrent_joins": sc.joiners, "faults": sc.faults, "stale_views": sc.stale})
	}
	r.Set("states", total)
	r.Set("transitions", total)
	r.Set("traces_validated_against_impl", total)
	r.Set("schedules", total)
	r.Set("distinct_outcomes", distinct)
	r.Set("explorations", subs)
	r.Set("exhaustive", exhaustive)
	finish(r, bound)
}

func finish(r *vk.Run, bound int) {
	r.Set("deviation_bound", bound)
	r.Set("rule", "per scenario x map-iteration offset (varies which majority xrand.SubMap picks): stateless DFS over schedules of k concurrent real pledge.Pledge calls against m real pledge.Arbitrate handlers; scheduling points at every transport Send and every mutex/atomic operation of aspen, freighter, x; each Send is a 3-way environment choice (deliver / fail / deliver but lose the reply); request and retry timers run on the bubble's fake clock; at most N deviations (preemptions + non-default fates) per schedule; every execution replayed; states/transitions count executions (each is one complete run of the real handlers)")
	r.Assume("membership views are owned by the harness: identical views, or members 1-2 not yet knowing a node that joined through member 3 (gossip lag); juror memory is per process (no juror restarts); go1.26.8 with runtime determinism patches; GOMAXPROCS=1")
	r.Finish()
}
