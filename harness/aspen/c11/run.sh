#!/bin/bash
HERE="$(cd "$(dirname "$0")/../../.." && pwd)"
. "$HERE/bin/env.sh"
exec "$HERE/bin/schedx-run" aspen c11 "/repo/aspen /repo/x/go /repo/alamos/go /repo/freighter/go"
