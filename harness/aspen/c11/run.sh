#!/bin/bash
# C11: (1) free-running -race pass of the scenario bodies; (2) schedx exploration, which folds
# in the result of (1).
HERE="$(cd "$(dirname "$0")/../../.." && pwd)"
. "$HERE/bin/race-pass" aspen c11 120
exec "$HERE/bin/schedx-run" aspen c11 "/repo/aspen /repo/x/go /repo/alamos/go /repo/freighter/go"
