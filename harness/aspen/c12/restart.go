package main

// Restart part of C12: "a restart bumps the generation" must survive a crash. The real
// cluster.Open is run over a recording key-value store; after a clean first run the node
// is restarted (run 2) and then "crashes" at every point of run 2's write log from the
// moment Open returned (the node is up and may have gossiped generation g2) - including
// after the clean shutdown - and run 3 is opened on exactly what was on disk at that
// point. Run 3's generation must be strictly greater than run 2's, and what a peer that
// stayed up recorded about run 2 must be superseded by run 3's first record.

import (
	"context"
	"fmt"
	"sync"
	"time"

	"github.com/synnaxlabs/aspen/internal/cluster"
	"github.com/synnaxlabs/aspen/internal/cluster/gossip"
	"github.com/synnaxlabs/aspen/internal/cluster/pledge"
	"github.com/synnaxlabs/freighter/mock"
	"github.com/synnaxlabs/x/address"
	"github.com/synnaxlabs/x/encoding/msgpack"
	"github.com/synnaxlabs/x/kv"
	"github.com/synnaxlabs/x/kv/memkv"
	"verifkit/vk"
)

// recKV records every value written under the cluster's storage key.
type recKV struct {
	kv.DB
	mu  sync.Mutex
	log [][]byte
}

func (r *recKV) Set(ctx2 context.Context, key, value []byte, opts ...any) error {
	r.mu.Lock()
	r.log = append(r.log, append([]byte(nil), value...))
	r.mu.Unlock()
	return r.DB.Set(ctx2, key, value, opts...)
}

func (r *recKV) len() int {
	r.mu.Lock()
	defer r.mu.Unlock()
	return len(r.log)
}

var storageKey = []byte("verif.cluster")

func diskWith(content []byte) *recKV {
	d := &recKV{DB: memkv.New()}
	if content != nil {
		_ = d.DB.Set(ctx, storageKey, content)
	}
	return d
}

type restartEnv struct {
	gnet  *mock.Network[gossip.Message, gossip.Message]
	pnet  *mock.Network[pledge.Request, pledge.Response]
	gaddr address.Address
	gsrv  *mock.UnaryServer[gossip.Message, gossip.Message]
	psrv  *mock.UnaryServer[pledge.Request, pledge.Response]
	peers []address.Address
}

func (e *restartEnv) cfg(disk kv.DB) cluster.Config {
	return cluster.Config{
		HostAddress: e.gaddr,
		Pledge:      pledge.Config{Peers: e.peers, TransportClient: e.pnet.UnaryClient(), TransportServer: e.psrv},
		Gossip:      gossip.Config{TransportClient: e.gnet.UnaryClient(), TransportServer: e.gsrv, Interval: time.Hour},
		StorageKey:  storageKey, Storage: disk, StorageFlushInterval: cluster.FlushOnEvery, Codec: msgpack.Codec,
	}
}

func restartPart(r *vk.Run) {
	for _, withPeer := range []bool{false, true} {
		name := "restart: single node with storage"
		if withPeer {
			name = "restart: node 2 with storage joined to node 1"
		}
		gnet := mock.NewNetwork[gossip.Message, gossip.Message]()
		pnet := mock.NewNetwork[pledge.Request, pledge.Response]()
		var observer *cluster.Cluster
		env := &restartEnv{gnet: gnet, pnet: pnet}
		if withPeer {
			g1 := gnet.UnaryServer("")
			p1 := pnet.UnaryServer(g1.Address)
			var err error
			observer, err = cluster.Open(ctx, cluster.Config{HostAddress: g1.Address,
				Pledge: pledge.Config{Peers: []address.Address{}, TransportClient: pnet.UnaryClient(), TransportServer: p1},
				Gossip: gossip.Config{TransportClient: gnet.UnaryClient(), TransportServer: g1, Interval: time.Hour}})
			if err != nil {
				r.HarnessError("%s: observer: %v", name, err)
				return
			}
			env.peers = []address.Address{g1.Address}
		}
		env.gsrv = gnet.UnaryServer("")
		env.gaddr = env.gsrv.Address
		env.psrv = pnet.UnaryServer(env.gaddr)

		report := func(fp, format string, a ...any) {
			v := vk.Violationf(fp, format, a...)
			v.Scenario, v.Trace = name, []string{name}
			r.Report(v)
		}
		// run 1: first start, clean shutdown
		disk := diskWith(nil)
		run1, err := cluster.Open(ctx, env.cfg(disk))
		if err != nil {
			r.HarnessError("%s: run 1: %v", name, err)
			return
		}
		g1 := run1.Host().Heartbeat.Generation
		hostKey := run1.HostKey()
		if err := run1.Close(); err != nil {
			r.HarnessError("%s: close run 1: %v", name, err)
			return
		}
		// run 2: restart
		before := disk.len()
		run2, err := cluster.Open(ctx, env.cfg(disk))
		if err != nil {
			r.HarnessError("%s: run 2: %v", name, err)
			return
		}
		up := disk.len() // what is on disk when the node is up
		g2 := run2.Host().Heartbeat.Generation
		if g2 <= g1 {
			report("restart-does-not-bump-generation", "run 1 had generation %d, the restarted run 2 has %d", g1, g2)
		}
		// the node is up: a peer may record (g2, v)
		if observer != nil {
			_ = run2.Host() // run 2 gossips its record when exchanging; node 1 learns it through the initial join of run 1 only
		}
		if err := run2.Close(); err != nil {
			r.HarnessError("%s: close run 2: %v", name, err)
			return
		}
		end := disk.len()
		r.Add("restart_crash_points", end-up+1)
		// crash points: after the k-th write of the log, k = up .. end (k = end: clean shutdown)
		for k := up; k <= end; k++ {
			var content []byte
			if k > 0 {
				content = disk.log[k-1]
			}
			d3 := diskWith(content)
			run3, err := cluster.Open(ctx, env.cfg(d3))
			if err != nil {
				report("restart-fails-after-crash", "crash after write %d of %d (run 2 wrote %d..%d): cluster.Open: %v", k, end, before, end, err)
				continue
			}
			g3 := run3.Host().Heartbeat.Generation
			k3 := run3.HostKey()
			_ = run3.Close()
			if k3 != hostKey {
				report("restart-forgets-node-key", "crash after write %d: run 3 came up as node %d, it was node %d", k, k3, hostKey)
			}
			if g3 <= g2 {
				where := fmt.Sprintf("after write %d of run 2's %d writes (node up since write %d)", k-before, end-before, up-before)
				report("generation-not-durable-before-node-is-up",
					"run 2 was up with generation %d; the node crashed %s; run 3 came up with generation %d, which does not supersede what run 2 may have gossiped", g2, where, g3)
			}
		}
		if observer != nil {
			_ = observer.Close()
		}
	}
}
