#!/bin/bash
# C12 = sequential BFS part (this package's main: exchanges, ticks, restarts, late third messages,
# crash points of cluster.Open) + concurrent schedx part (../c12c: concurrent exchanges and
# writes on real stores). The sequential part writes a part file which the schedx part merges.
HERE="$(cd "$(dirname "$0")/../../.." && pwd)"
. "$HERE/bin/env.sh"
mkdir -p "$HERE/build/bin"
build_seq() {
  ( cd "$HERE/harness/aspen" && "$HERE/bin/gosum.sh" aspen && $VGO build -tags verif -o "$HERE/build/bin/c12" ./c12 ) || { echo "HARNESS-ERROR: build failed for C12" >&2; exit 2; }
}
if [ -n "${VERIF_REPLAY:-}" ] && ! grep -q '"scenario": *"G[0-9]' "$VERIF_REPLAY"; then
  build_seq
  exec "$HERE/build/bin/c12"
fi
PART="$HERE/build/c12-part1.json"; rm -f "$PART"
if [ -z "${VERIF_REPLAY:-}" ]; then
  build_seq
  # the sequential part gets at most two thirds of the budget
  B=${VERIF_BUDGET_S:-}; if [ -z "$B" ]; then if [ "${VERIF_TIER:-quick}" = thorough ]; then B=1200; else B=100; fi; fi
  T0=$(date +%s)
  VERIF_BUDGET_S=$((B*2/3)) VERIF_PART_OUT="$PART" "$HERE/build/bin/c12" || { echo "HARNESS-ERROR: sequential part of C12 failed" >&2; exit 2; }
  # the concurrent part gets what the sequential part left of the budget (at least a third)
  LEFT=$((B - ($(date +%s) - T0))); [ "$LEFT" -lt $((B/3)) ] && LEFT=$((B/3))
  export VERIF_PARTS="$PART" VERIF_BUDGET_S=$LEFT
fi
exec "$HERE/bin/schedx-run" aspen c12c "/repo/aspen /repo/x/go /repo/alamos/go /repo/freighter/go"
