// C12 — membership gossip only moves views forward and converges.
//
// Explicit-state BFS over the real store.Store + gossip.Gossip per node on the in-memory
// freighter network: tick (heartbeat increment), exchange(i->j) (GossipOnceWith), host
// state change, restart (Heartbeat.Restart), from full, chain and star initial knowledge.
// After every event: no observer's record of any member regresses and every (member,
// heartbeat) record is the one its host wrote. From every reached state the closing round
// (every node ticks once, then every pair exchanges once, in every pair order and with
// either side initiating) must leave all views identical and complete.
package main

import (
	"context"
	"fmt"
	"os"
	"sort"
	"strings"
	"time"

	"github.com/synnaxlabs/aspen/internal/cluster/gossip"
	"github.com/synnaxlabs/aspen/internal/cluster/store"
	"github.com/synnaxlabs/aspen/internal/node"
	"github.com/synnaxlabs/freighter/mock"
	"github.com/synnaxlabs/x/address"
	"github.com/synnaxlabs/x/errors"
	"github.com/synnaxlabs/x/version"
	"verifkit/seqx"
	"verifkit/vk"
)

var ctx = context.Background()

type nd struct {
	key      node.Key
	st       store.Store
	g        *gossip.Gossip
	addr     address.Address
	ticks    int
	restarts int
	changes  int
	hc       *holdClient
}

// holdClient is the node's gossip transport client. While hold is set, the third message of
// an exchange this node initiates (the records the peer asked for) is not delivered but kept:
// the initiator's call returns, and the message arrives when the harness delivers it - after
// whatever other exchanges happened at that peer in the meantime.
type holdClient struct {
	gossip.TransportClient
	hold bool
	held *heldMsg
}

type heldMsg struct {
	to  address.Address
	msg gossip.Message
}

func (h *holdClient) Send(c context.Context, to address.Address, msg gossip.Message) (gossip.Message, error) {
	if h.hold && len(msg.Digests) == 0 && len(msg.Nodes) != 0 {
		cp := gossip.Message{Nodes: msg.Nodes.Copy()}
		h.held = &heldMsg{to, cp}
		return gossip.Message{}, nil
	}
	return h.TransportClient.Send(c, to, msg)
}

type sys struct {
	sc    scenario
	nodes []*nd
	truth map[string]node.Node // (member, heartbeat) -> record written by the host
}

type scenario struct {
	name      string
	n         int
	knowledge string // full | chain | star
	maxTicks  int
	depth     int
	late      bool // exchanges whose third message is delivered late are part of the alphabet
}

func hbs(h version.Heartbeat) string { return fmt.Sprintf("%d.%d", h.Generation, h.Version) }

func build(states []store.State) []*nd {
	net := mock.NewNetwork[gossip.Message, gossip.Message]()
	var nodes []*nd
	servers := make([]*mock.UnaryServer[gossip.Message, gossip.Message], len(states))
	for i := range states {
		servers[i] = net.UnaryServer(address.Address(fmt.Sprintf("n%d", i+1)))
	}
	for i, s := range states {
		st := store.New(ctx)
		st.SetState(ctx, s)
		hc := &holdClient{TransportClient: net.UnaryClient()}
		g, err := gossip.New(gossip.Config{Store: st, TransportClient: hc, TransportServer: servers[i], Interval: time.Hour})
		if err != nil {
			panic(err)
		}
		nodes = append(nodes, &nd{key: node.Key(i + 1), st: st, g: g, addr: servers[i].Address, hc: hc})
	}
	return nodes
}

func newSys(sc scenario) (*sys, error) {
	states := make([]store.State, sc.n)
	rec := func(i int) node.Node {
		return node.Node{Key: node.Key(i + 1), Address: address.Address(fmt.Sprintf("n%d", i+1))}
	}
	for i := 0; i < sc.n; i++ {
		g := node.Group{node.Key(i + 1): rec(i)}
		switch sc.knowledge {
		case "full":
			for j := 0; j < sc.n; j++ {
				g[node.Key(j+1)] = rec(j)
			}
		case "chain":
			if i+1 < sc.n {
				g[node.Key(i+2)] = rec(i + 1)
			}
		case "star": // everybody knows node 1 only
			g[1] = rec(0)
		}
		states[i] = store.State{Nodes: g, HostKey: node.Key(i + 1)}
	}
	s := &sys{sc: sc, nodes: build(states), truth: map[string]node.Node{}}
	for i := 0; i < sc.n; i++ {
		s.truth[fmt.Sprintf("%d@0.0", i+1)] = rec(i)
	}
	return s, nil
}

func (s *sys) Close() {}

func (s *sys) knows(i, j int) bool {
	n, ok := s.nodes[i].st.GetNode(node.Key(j + 1))
	return ok && n.State == node.StateHealthy
}

func (s *sys) Ops() []string {
	var ops []string
	for i, n := range s.nodes {
		if n.ticks < s.sc.maxTicks {
			ops = append(ops, fmt.Sprintf("tick %d", i+1))
		}
	}
	for i := range s.nodes {
		for j := range s.nodes {
			if i != j && s.knows(i, j) {
				ops = append(ops, fmt.Sprintf("ex %d %d", i+1, j+1))
			}
		}
	}
	if s.sc.late {
		for i, n := range s.nodes {
			if n.hc.held != nil {
				ops = append(ops, fmt.Sprintf("deliver %d", i+1))
				continue
			}
			for j := range s.nodes {
				if i != j && s.knows(i, j) {
					ops = append(ops, fmt.Sprintf("exlate %d %d", i+1, j+1))
				}
			}
		}
	}
	for i, n := range s.nodes {
		if n.changes < 1 && !s.sc.late { // the late-delivery scenarios change records by ticks and restarts only
			ops = append(ops, fmt.Sprintf("state %d", i+1))
		}
		if n.restarts < 1 {
			ops = append(ops, fmt.Sprintf("restart %d", i+1))
		}
	}
	return ops
}

func (s *sys) snapshot() []node.Group {
	out := make([]node.Group, len(s.nodes))
	for i, n := range s.nodes {
		out[i] = n.st.CopyState().Nodes.Copy()
	}
	return out
}

func (s *sys) hostWrite(n *nd, f func(h node.Node) node.Node) {
	h := f(n.st.GetHost())
	n.st.SetNode(ctx, h)
	s.truth[fmt.Sprintf("%d@%s", h.Key, hbs(h.Heartbeat))] = h
}

func (s *sys) Apply(op string) (string, error) {
	var a, b int
	f := strings.Fields(op)
	fmt.Sscan(f[1], &a)
	if len(f) > 2 {
		fmt.Sscan(f[2], &b)
	}
	before := s.snapshot()
	n := s.nodes[a-1]
	obs := "ok"
	switch f[0] {
	case "tick":
		n.ticks++
		s.hostWrite(n, func(h node.Node) node.Node { h.Heartbeat = h.Heartbeat.Increment(); return h })
	case "state":
		n.changes++
		s.hostWrite(n, func(h node.Node) node.Node {
			h.Heartbeat = h.Heartbeat.Increment()
			h.State = node.StateSuspect
			return h
		})
	case "restart":
		n.restarts++
		n.ticks = 0
		s.hostWrite(n, func(h node.Node) node.Node { h.Heartbeat = h.Heartbeat.Restart(); return h })
	case "ex":
		if err := n.g.GossipOnceWith(ctx, s.nodes[b-1].addr); err != nil {
			return "", vk.Violationf("exchange-error", "%s failed: %v", op, err)
		}
	case "exlate":
		n.hc.hold = true
		err := n.g.GossipOnceWith(ctx, s.nodes[b-1].addr)
		n.hc.hold = false
		if err != nil {
			return "", vk.Violationf("exchange-error", "%s failed: %v", op, err)
		}
		if n.hc.held == nil {
			obs = "nothing-to-send"
		}
	case "deliver":
		h := n.hc.held
		n.hc.held = nil
		if _, err := n.hc.TransportClient.Send(ctx, h.to, h.msg); err != nil {
			return "", vk.Violationf("exchange-error", "%s failed: %v", op, err)
		}
	}
	if err := s.monotone(op, before, s.snapshot()); err != nil {
		return "", err
	}
	return obs, nil
}

func (s *sys) monotone(op string, before, after []node.Group) error {
	for o := range before {
		for k, nb := range before[o] {
			na, ok := after[o][k]
			if !ok {
				return vk.Violationf("member-forgotten", "%s: node %d forgot member %d", op, o+1, k)
			}
			if na.Heartbeat.YoungerThan(nb.Heartbeat) {
				return vk.Violationf("heartbeat-regressed", "%s: node %d's record of member %d went from heartbeat %s back to %s", op, o+1, k, hbs(nb.Heartbeat), hbs(na.Heartbeat))
			}
			if na.Heartbeat == nb.Heartbeat && na != nb {
				return vk.Violationf("record-changed-at-same-heartbeat", "%s: node %d's record of member %d changed from %+v to %+v without a newer heartbeat", op, o+1, k, nb, na)
			}
		}
		for k, na := range after[o] {
			want, ok := s.truth[fmt.Sprintf("%d@%s", k, hbs(na.Heartbeat))]
			if !ok || want != na {
				return vk.Violationf("stale-or-invented-record", "%s: node %d holds %+v for member %d, but its host wrote %+v at that heartbeat", op, o+1, na, k, want)
			}
		}
	}
	return nil
}

func groupCanon(g node.Group) string {
	var ks []int
	for k := range g {
		ks = append(ks, int(k))
	}
	sort.Ints(ks)
	var b strings.Builder
	for _, k := range ks {
		n := g[node.Key(k)]
		fmt.Fprintf(&b, "%d@%s/%d ", k, hbs(n.Heartbeat), n.State)
	}
	return b.String()
}

func (s *sys) Canon() string {
	var b strings.Builder
	for i, n := range s.nodes {
		fmt.Fprintf(&b, "N%d[%s|t%d r%d c%d] ", i+1, groupCanon(n.st.CopyState().Nodes), n.ticks, n.restarts, n.changes)
		if n.hc.held != nil {
			fmt.Fprintf(&b, "held->%s[%s] ", n.hc.held.to, groupCanon(n.hc.held.msg.Nodes))
		}
	}
	return b.String()
}

func permutations(n int) [][]int {
	if n == 0 {
		return [][]int{{}}
	}
	var out [][]int
	for _, p := range permutations(n - 1) {
		for i := 0; i <= len(p); i++ {
			q := append(append(append([]int{}, p[:i]...), n-1), p[i:]...)
			out = append(out, q)
		}
	}
	return out
}

// Check runs the closing round from this state in every pair order / initiator choice.
func (s *sys) Check() error {
	n := len(s.nodes)
	var pairs [][2]int
	for i := 0; i < n; i++ {
		for j := i + 1; j < n; j++ {
			pairs = append(pairs, [2]int{i, j})
		}
	}
	perms := permutations(len(pairs))
	if len(pairs) > 3 { // 4 nodes: 720 orders x 64 initiator choices is too many: rotations + reversals of the canonical order
		perms = nil
		base := make([]int, len(pairs))
		for i := range base {
			base[i] = i
		}
		for r := 0; r < len(pairs); r++ {
			rot := append(append([]int{}, base[r:]...), base[:r]...)
			rev := make([]int, len(rot))
			for i := range rot {
				rev[len(rot)-1-i] = rot[i]
			}
			perms = append(perms, rot, rev)
		}
	}
	for _, perm := range perms {
		for mask := 0; mask < 1<<len(pairs); mask++ {
			states := make([]store.State, n)
			for i, x := range s.nodes {
				states[i] = x.st.CopyState()
				states[i].Nodes = states[i].Nodes.Copy()
			}
			cl := build(states)
			for _, x := range cl {
				h := x.st.GetHost()
				h.Heartbeat = h.Heartbeat.Increment()
				x.st.SetNode(ctx, h)
			}
			all := true
			var order []string
			for pi, p := range perm {
				i, j := pairs[p][0], pairs[p][1]
				if mask&(1<<pi) != 0 {
					i, j = j, i
				}
				kn := func(a, b int) bool {
					r, ok := cl[a].st.GetNode(node.Key(b + 1))
					return ok && r.Address != ""
				}
				if !kn(i, j) {
					if !kn(j, i) {
						all = false
						continue
					}
					i, j = j, i
				}
				order = append(order, fmt.Sprintf("%d->%d", i+1, j+1))
				if err := cl[i].g.GossipOnceWith(ctx, cl[j].addr); err != nil {
					return vk.Violationf("exchange-error", "closing round exchange %d->%d failed: %v", i+1, j+1, err)
				}
			}
			if !all {
				continue // some pair could not exchange (neither side knows the other): no claim
			}
			ref := groupCanon(cl[0].st.CopyState().Nodes)
			for i, x := range cl {
				g := x.st.CopyState().Nodes
				if c := groupCanon(g); c != ref || len(g) != n {
					return vk.Violationf("no-convergence", "after every node ticked and every pair exchanged (%v) the views differ or are incomplete: node 1 has [%s], node %d has [%s]; start state %s", order, ref, i+1, c, s.Canon())
				}
			}
		}
	}
	return nil
}

func main() {
	r := vk.New("C12", "model_checking")
	var scs []scenario
	if r.Quick() {
		scs = []scenario{
			{"3 nodes, full knowledge", 3, "full", 1, 5, false},
			{"3 nodes, chain knowledge (i knows i+1)", 3, "chain", 1, 5, false},
			{"3 nodes, star knowledge (all know node 1 only)", 3, "star", 1, 5, false},
			{"2 nodes, full knowledge, 2 ticks per generation", 2, "full", 2, 8, false},
			{"3 nodes, full knowledge, third message of an exchange may arrive late", 3, "full", 1, 5, true},
		}
	} else {
		scs = []scenario{
			{"3 nodes, full knowledge", 3, "full", 2, 8, false},
			{"3 nodes, chain knowledge (i knows i+1)", 3, "chain", 2, 8, false},
			{"3 nodes, star knowledge (all know node 1 only)", 3, "star", 2, 8, false},
			{"2 nodes, full knowledge, 2 ticks per generation", 2, "full", 2, 14, false},
			{"4 nodes, chain knowledge", 4, "chain", 1, 6, false},
			{"4 nodes, star knowledge", 4, "star", 1, 6, false},
			{"3 nodes, full knowledge, third message of an exchange may arrive late", 3, "full", 2, 7, true},
			{"3 nodes, chain knowledge, third message of an exchange may arrive late", 3, "chain", 1, 6, true},
		}
	}
	mk := func(sc scenario) seqx.Config {
		return seqx.Config{Name: sc.name, MaxDepth: sc.depth, Seed: r.Seed, New: func() (seqx.Sys, error) { return newSys(sc) }}
	}
	if r.Replay != "" {
		v, err := vk.LoadReplay(r.Replay)
		if err != nil {
			fmt.Fprintln(os.Stderr, err)
			os.Exit(2)
		}
		if strings.HasPrefix(v.Scenario, "restart") {
			restartPart(r)
			r.Finish()
		}
		for _, sc := range scs {
			if sc.name == v.Scenario {
				if err := seqx.Replay(mk(sc), v.Trace); err != nil {
					var vv *vk.Violation
					if errors.As(err, &vv) {
						vv.Trace, vv.Scenario = v.Trace, v.Scenario
						r.Report(vv)
					} else {
						r.HarnessError("replay: %v", err)
					}
				} else {
					vk.NoRepro()
				}
			}
		}
		r.Finish()
	}
	for i, sc := range scs {
		cfg := mk(sc)
		cfg.Deadline = time.Now().Add(r.Left() / time.Duration(len(scs)-i))
		seqx.Merge(r, seqx.Explore(r, cfg))
	}
	restartPart(r)
	r.Set("rule", "BFS over tick(i) / exchange(i->j, only towards members i knows) / host state change / restart(i) (bounded ticks per generation, one restart and one state change per node) on real store.Store + gossip.Gossip per node over the in-memory network; dedup on all views; after every event: no record regresses, every (member, heartbeat) record equals what its host wrote; in every new state the closing round (all tick once, then all pairs exchange once) is run in every pair order x initiator choice (3 nodes: 6 x 8) and must end with identical complete views; restart part: real cluster.Open over a recording store, run 1 (clean), run 2 (restart), then a crash at every point of run 2's write log from the moment Open returned and a run 3 on what was on disk: run 3's generation must exceed run 2's and the node keeps its key")
	r.Assume("synchronous in-memory transport (freighter mock); a restart is modelled as Heartbeat.Restart() of the host record (what cluster.Open does); pairs that cannot exchange in the closing round because neither side knows the other make no convergence claim; for 4 nodes the pair orders are the 12 rotations/reversals of the canonical order")
	r.Finish()
}
