// C12 (concurrent part) — membership gossip under concurrent exchanges.
//
// A node's membership store is written by its own gossip round (heartbeat tick, merge of the
// peer's answer) and, at the same time, by the server side of exchanges other nodes start with
// it. Real store.Store + gossip.Gossip instances on the synchronous in-memory transport (the
// peer's handler runs on the initiator's goroutine) are driven by 2-3 harness threads under
// the schedx controlled scheduler: every interleaving at the stores' lock operations with a
// bounded number of preemptions. An exchange is three messages, so interleaved exchanges need
// not look like a serial order of whole exchanges; what the property promises is judged
// directly: every record a node's store was given - by a local write (SetNode) or by a merge
// of a peer's records - is a lower bound for what that node holds from then on. After the
// threads finished every node must hold, for every member, a record at least as new as every
// record its store was ever given for that member (no update lost, no heartbeat gone back, no
// member forgotten).
package main

import (
	"context"
	"fmt"
	"os"
	"sort"
	"strings"
	"testing"
	"time"

	"github.com/synnaxlabs/aspen/internal/cluster/gossip"
	"github.com/synnaxlabs/aspen/internal/cluster/store"
	"github.com/synnaxlabs/aspen/internal/node"
	"github.com/synnaxlabs/freighter/mock"
	"github.com/synnaxlabs/x/address"
	"verifkit/schedx"
	"verifkit/vk"
)

var ctx = context.Background()

type nd struct {
	st   *recStore
	g    *gossip.Gossip
	addr address.Address
}

// recStore records every record the store is given (a harness-only lock that is not a
// scheduling point guards the log).
type recStore struct {
	store.Store
	lk  chan struct{}
	low node.Group // per member the newest record given so far
}

func newRecStore(st store.Store) *recStore {
	return &recStore{Store: st, lk: make(chan struct{}, 1), low: node.Group{}}
}

func (r *recStore) note(n node.Node) {
	r.lk <- struct{}{}
	if cur, ok := r.low[n.Key]; !ok || n.Heartbeat.OlderThan(cur.Heartbeat) {
		r.low[n.Key] = n
	}
	<-r.lk
}

func (r *recStore) SetNode(c context.Context, n node.Node) {
	r.note(n)
	r.Store.SetNode(c, n)
}

func (r *recStore) Merge(c context.Context, g node.Group) {
	for _, n := range g {
		r.note(n)
	}
	r.Store.Merge(c, g)
}

type world struct{ nodes []*nd }

func rec(i int) node.Node {
	return node.Node{Key: node.Key(i), Address: address.Address(fmt.Sprintf("n%d", i))}
}

// newWorld builds n nodes; knows[i] lists the members node i+1 knows besides itself
func newWorld(n int, knows [][]int) *world {
	net := mock.NewNetwork[gossip.Message, gossip.Message]()
	w := &world{}
	servers := make([]*mock.UnaryServer[gossip.Message, gossip.Message], n)
	for i := 0; i < n; i++ {
		servers[i] = net.UnaryServer(address.Address(fmt.Sprintf("n%d", i+1)))
	}
	for i := 0; i < n; i++ {
		g := node.Group{node.Key(i + 1): rec(i + 1)}
		for _, k := range knows[i] {
			g[node.Key(k)] = rec(k)
		}
		st := newRecStore(store.New(ctx))
		st.SetState(ctx, store.State{Nodes: g, HostKey: node.Key(i + 1)})
		for _, m := range g {
			st.note(m)
		}
		gs, err := gossip.New(gossip.Config{Store: st, TransportClient: net.UnaryClient(), TransportServer: servers[i], Interval: time.Hour})
		if err != nil {
			panic(err)
		}
		w.nodes = append(w.nodes, &nd{st: st, g: gs, addr: servers[i].Address})
	}
	return w
}

// call is one operation of a thread
type call struct {
	kind string // "ex a b" exchange a -> b, "round a" GossipOnce of a (tick, then exchange with its only healthy peer), "tick a", "suspect a"
	a, b int
}

func (c call) String() string {
	if c.kind == "ex" {
		return fmt.Sprintf("exchange %d->%d", c.a, c.b)
	}
	return fmt.Sprintf("%s %d", c.kind, c.a)
}

func (c call) run(w *world) string {
	n := w.nodes[c.a-1]
	switch c.kind {
	case "ex":
		if err := n.g.GossipOnceWith(ctx, w.nodes[c.b-1].addr); err != nil {
			return c.String() + ": " + err.Error()
		}
	case "round":
		if err := n.g.GossipOnce(ctx); err != nil {
			return c.String() + ": " + err.Error()
		}
	case "tick":
		h := n.st.GetHost()
		h.Heartbeat = h.Heartbeat.Increment()
		n.st.SetNode(ctx, h)
	case "suspect":
		h := n.st.GetHost()
		h.Heartbeat = h.Heartbeat.Increment()
		h.State = node.StateSuspect
		n.st.SetNode(ctx, h)
	}
	return c.String() + ": ok"
}

type scenario struct {
	name    string
	n       int
	knows   [][]int
	setup   []call
	threads [][]call
}

var scenarios = []scenario{
	{"G1 two initiators exchange with the same peer", 3, [][]int{{2, 3}, {1, 3}, {1, 2}},
		[]call{{"tick", 2, 0}, {"tick", 3, 0}},
		[][]call{{{"ex", 2, 1}}, {{"ex", 3, 1}}}},
	{"G2 a node runs its own round while another node exchanges with it", 3, [][]int{{2}, {1}, {1}},
		[]call{{"tick", 3, 0}, {"tick", 2, 0}},
		[][]call{{{"round", 1, 0}}, {{"ex", 3, 1}}}},
	{"G3 a node's own state changes while it merges an exchange", 2, [][]int{{2}, {1}},
		[]call{{"tick", 2, 0}},
		[][]call{{{"suspect", 1, 0}}, {{"ex", 2, 1}}}},
	{"G4 three nodes exchange in a ring at once", 3, [][]int{{2, 3}, {1, 3}, {1, 2}},
		[]call{{"tick", 1, 0}, {"tick", 2, 0}, {"tick", 3, 0}},
		[][]call{{{"ex", 1, 2}}, {{"ex", 2, 3}}, {{"ex", 3, 1}}}},
}

func (w *world) observe() string {
	var parts []string
	for i, n := range w.nodes {
		g := n.st.CopyState().Nodes
		var ks []int
		for k := range g {
			ks = append(ks, int(k))
		}
		sort.Ints(ks)
		var b strings.Builder
		for _, k := range ks {
			m := g[node.Key(k)]
			fmt.Fprintf(&b, "%d@%d.%d/%d ", k, m.Heartbeat.Generation, m.Heartbeat.Version, m.State)
		}
		parts = append(parts, fmt.Sprintf("N%d[%s]", i+1, strings.TrimSpace(b.String())))
	}
	return strings.Join(parts, " ")
}

// judge compares what every node holds with the lower bounds its store recorded
func (w *world) judge() string {
	for i, n := range w.nodes {
		have := n.st.CopyState().Nodes
		for k, low := range n.st.low {
			h, ok := have[k]
			if !ok {
				return fmt.Sprintf("node %d no longer knows member %d (it was given %d@%d.%d)", i+1, k, k, low.Heartbeat.Generation, low.Heartbeat.Version)
			}
			if h.Heartbeat.YoungerThan(low.Heartbeat) {
				return fmt.Sprintf("node %d holds member %d at heartbeat %d.%d although its store was given %d.%d (state %d): an update was lost", i+1, k,
					h.Heartbeat.Generation, h.Heartbeat.Version, low.Heartbeat.Generation, low.Heartbeat.Version, low.State)
			}
		}
	}
	return ""
}

func build(sc scenario) *world {
	w := newWorld(sc.n, sc.knows)
	for _, c := range sc.setup {
		c.run(w)
	}
	// every state change spawns a notifier goroutine (store.Observable, GoNotify): let those
	// of the set-up finish before anything is scheduled, so that they belong to no execution
	time.Sleep(time.Millisecond)
	return w
}

// serialOutcomes: every merge of the threads' call lists, executed one call at a time
func serialOutcomes(sc scenario) map[string]bool {
	out := map[string]bool{}
	idx := make([]int, len(sc.threads))
	var order []int
	var rec func()
	rec = func() {
		done := true
		for t := range sc.threads {
			if idx[t] < len(sc.threads[t]) {
				done = false
				idx[t]++
				order = append(order, t)
				rec()
				order = order[:len(order)-1]
				idx[t]--
			}
		}
		if done {
			w := build(sc)
			pos := make([]int, len(sc.threads))
			res := make([][]string, len(sc.threads))
			for _, t := range order {
				res[t] = append(res[t], sc.threads[t][pos[t]].run(w))
				pos[t]++
			}
			out[outcome(res, w)] = true
		}
	}
	rec()
	return out
}

func outcome(res [][]string, w *world) string {
	var parts []string
	for t, r := range res {
		parts = append(parts, fmt.Sprintf("T%d[%s]", t+1, strings.Join(r, ", ")))
	}
	verdict := "ok"
	if j := w.judge(); j != "" {
		verdict = "LOST: " + j
	}
	return strings.Join(parts, " ") + " | " + w.observe() + " | " + verdict
}

func body(sc scenario) schedx.Body {
	return func(t *testing.T, run func(threads ...func()) bool) string {
		w := build(sc)
		res := make([][]string, len(sc.threads))
		var ths []func()
		for i := range sc.threads {
			ths = append(ths, func() {
				for _, c := range sc.threads[i] {
					schedx.Point("call")
					res[i] = append(res[i], c.run(w))
				}
			})
		}
		if run(ths...) {
			return "deadlock"
		}
		return outcome(res, w)
	}
}

type viol struct {
	v       *vk.Violation
	choices []int
}

func (v *viol) Error() string { return v.v.Error() }

var (
	inflightSlot int
	inflightName string
)

func TestCheck(t *testing.T) {
	r := vk.New("C12", "model_checking")
	bound := 2
	if !r.Quick() {
		bound = 4
	}
	if r.Replay != "" {
		v, err := vk.LoadReplay(r.Replay)
		if err != nil {
			fmt.Fprintln(os.Stderr, err)
			os.Exit(2)
		}
		for _, sc := range scenarios {
			if sc.name != v.Scenario {
				continue
			}
			var prefix []int
			for _, f := range strings.Fields(strings.Trim(v.Trace[0], "[]")) {
				var n int
				fmt.Sscan(f, &n)
				prefix = append(prefix, n)
			}
			_, out, dl := schedx.RunOnce(t, schedx.Config{Body: body(sc)}, prefix)
			if dl || strings.Contains(out, "| LOST: ") {
				vv := vk.Violationf(v.Fingerprint, "replayed: %s", out)
				vv.Scenario, vv.Trace = v.Scenario, v.Trace
				r.Report(vv)
			} else {
				vk.NoRepro()
			}
		}
		r.Finish()
	}
	r.MergeParts()
	total, distinct, nonSerial := 0, 0, 0
	exhaustive := true
	var subs []any
	for i, sc := range scenarios {
		serial := serialOutcomes(sc)
		inflightSlot, inflightName = 0, sc.name
		cfg := schedx.Config{Name: sc.name, Body: body(sc), Preemptions: bound,
			Deadline: time.Now().Add(r.Left() / time.Duration(len(scenarios)-i)), OnExec: vk.Beat,
			OnRun: func(p []int) { vk.Inflight(inflightSlot, inflightName, []string{fmt.Sprint(p)}) }, MaxSteps: 5000,
			Check: func(out string, dl bool, choices []int) error {
				if dl {
					return &viol{vk.Violationf("concurrent:deadlock:"+sc.name[:2], "schedule %v deadlocks", choices), choices}
				}
				if i := strings.Index(out, "| LOST: "); i >= 0 {
					return &viol{vk.Violationf("concurrent:update-lost:"+sc.name[:2], "schedule %v: %s\n  %s", choices, out[i+8:], out[:i]), choices}
				}
				if !serial[out] {
					nonSerial++ // interleaved three-message exchanges: counted, not judged
				}
				return nil
			}}
		st, err := schedx.Explore(t, cfg)
		total += st.Executions
		distinct += st.Distinct
		exhaustive = exhaustive && st.Exhaustive
		subs = append(subs, st)
		if err != nil {
			if vv, ok := err.(*viol); ok {
				vv.v.Scenario, vv.v.Trace = sc.name, []string{fmt.Sprint(vv.choices)}
				r.Report(vv.v)
			} else {
				r.HarnessError("%v", err)
			}
		}
	}
	r.Set("concurrent_schedules", total)
	r.Add("traces_validated_against_impl", total)
	r.Add("transitions", total)
	r.Set("concurrent_distinct_outcomes", distinct)
	r.Set("concurrent_preemption_bound", bound)
	r.Set("concurrent_schedules_matching_no_serial_order_of_whole_exchanges", nonSerial)
	r.Set("concurrent_explorations", subs)
	if !exhaustive {
		r.Set("exhaustive", false)
	}
	r.Finish()
}
