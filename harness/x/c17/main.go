// C17 — indexed queries equal full scans; uncommitted writes stay private; aborts vanish.
//
// Explicit-state BFS (kit/seqx) over the real gorp.Table with a LookupIndex and a
// SortedIndex on memkv. In every distinct state every filter tree of the fixed query
// catalogue is executed through the index path and through gorp.Match with the
// equivalent predicate, in every open transaction and on the bare DB, and both are
// compared with a map-based reference model with per-transaction overlays.
package main

import (
	"context"
	"fmt"
	"os"
	"slices"
	"sort"
	"strings"

	"github.com/synnaxlabs/x/gorp"
	"github.com/synnaxlabs/x/kv"
	"github.com/synnaxlabs/x/kv/memkv"
	"github.com/synnaxlabs/x/query"
	"github.com/synnaxlabs/x/errors"
	"verifkit/seqx"
	"verifkit/vk"
)

type Row struct {
	ID    int32
	Cat   string
	Score int64
}

func (r Row) GorpKey() int32    { return r.ID }
func (r Row) SetOptions() []any { return nil }

func mkRow(k int32, v string) Row {
	return Row{ID: k, Cat: v, Score: scoreOf(v)}
}

// scoreOf maps the indexed string value to the sorted index's value; "" (the zero value of
// the lookup index) maps to 0 (the zero value of the sorted index).
func scoreOf(v string) int64 {
	if v == "" {
		return 0
	}
	return int64(v[0]-'a') + 1
}

var ctx = context.Background()

// ---------- filter trees ----------

type ftree struct {
	kind string // L S K P not and or
	vals []string
	keys []int32
	kids []*ftree
}

func (f *ftree) String() string {
	switch f.kind {
	case "L", "S":
		return f.kind + "(" + strings.Join(f.vals, ",") + ")"
	case "K":
		return fmt.Sprintf("K%v", f.keys)
	case "P":
		return "P(odd)"
	}
	var ks []string
	for _, k := range f.kids {
		ks = append(ks, k.String())
	}
	return f.kind + "(" + strings.Join(ks, ",") + ")"
}

func (f *ftree) eval(r Row) bool {
	switch f.kind {
	case "L":
		return slices.Contains(f.vals, r.Cat)
	case "S":
		for _, v := range f.vals {
			if scoreOf(v) == r.Score {
				return true
			}
		}
		return false
	case "K":
		return slices.Contains(f.keys, r.ID)
	case "P":
		return r.ID%2 == 1
	case "not":
		return !f.kids[0].eval(r)
	case "and":
		for _, k := range f.kids {
			if !k.eval(r) {
				return false
			}
		}
		return true
	case "or":
		for _, k := range f.kids {
			if k.eval(r) {
				return true
			}
		}
		return false
	}
	panic("bad kind")
}

func (f *ftree) usesIndex() bool {
	if f.kind == "L" || f.kind == "S" {
		return true
	}
	for _, k := range f.kids {
		if k.usesIndex() {
			return true
		}
	}
	return false
}

type F = gorp.Filter[int32, Row]

func (s *sys) indexFilter(f *ftree) F {
	switch f.kind {
	case "L":
		return s.lidx.Filter(f.vals...)
	case "S":
		var sc []int64
		for _, v := range f.vals {
			sc = append(sc, scoreOf(v))
		}
		return s.sidx.Filter(sc...)
	case "K":
		return gorp.MatchKeys[int32, Row](f.keys...)
	case "P":
		return gorp.Match[int32, Row](func(_ gorp.Context, e *Row) (bool, error) { return e.ID%2 == 1, nil })
	}
	var kids []F
	for _, k := range f.kids {
		kids = append(kids, s.indexFilter(k))
	}
	switch f.kind {
	case "not":
		return gorp.Not(kids[0])
	case "and":
		return gorp.And(kids...)
	case "or":
		return gorp.Or(kids...)
	}
	panic("bad kind")
}

func scanFilter(f *ftree) F {
	return gorp.Match[int32, Row](func(_ gorp.Context, e *Row) (bool, error) { return f.eval(*e), nil })
}

func atom(kind string, vals []string, keys []int32) *ftree {
	return &ftree{kind: kind, vals: vals, keys: keys}
}

func catalogue(nKeys int) []*ftree {
	atoms := []*ftree{
		atom("L", []string{""}, nil), atom("L", []string{"b"}, nil), atom("L", []string{"", "b"}, nil),
		atom("S", []string{""}, nil), atom("S", []string{"b"}, nil), atom("S", []string{"b", ""}, nil),
		atom("L", []string{"z"}, nil),
		atom("K", nil, []int32{1}), atom("K", nil, []int32{1, 2}), atom("K", nil, []int32{}), atom("K", nil, []int32{2, 9}),
		atom("P", nil, nil),
	}
	if nKeys >= 3 {
		atoms = append(atoms, atom("K", nil, []int32{3, 1}))
	}
	var out []*ftree
	out = append(out, atoms...)
	for _, a := range atoms {
		out = append(out, &ftree{kind: "not", kids: []*ftree{a}})
	}
	for _, a := range atoms {
		for _, b := range atoms {
			out = append(out, &ftree{kind: "and", kids: []*ftree{a, b}}, &ftree{kind: "or", kids: []*ftree{a, b}})
		}
	}
	small := []*ftree{atoms[0], atoms[4], atoms[8], atoms[11], atoms[1]}
	for _, a := range small {
		for _, b := range small {
			and := &ftree{kind: "and", kids: []*ftree{a, b}}
			or := &ftree{kind: "or", kids: []*ftree{a, b}}
			na := &ftree{kind: "not", kids: []*ftree{a}}
			out = append(out,
				&ftree{kind: "not", kids: []*ftree{and}}, &ftree{kind: "not", kids: []*ftree{or}},
				&ftree{kind: "and", kids: []*ftree{na, b}}, &ftree{kind: "or", kids: []*ftree{na, b}},
				&ftree{kind: "not", kids: []*ftree{&ftree{kind: "not", kids: []*ftree{a}}}},
			)
			for _, c := range small {
				out = append(out,
					&ftree{kind: "and", kids: []*ftree{or, c}}, &ftree{kind: "or", kids: []*ftree{and, c}},
					&ftree{kind: "and", kids: []*ftree{a, b, c}}, &ftree{kind: "or", kids: []*ftree{a, b, c}},
				)
			}
		}
	}
	// keep only trees that go through an index somewhere (the others are pure scans)
	var idx []*ftree
	for _, f := range out {
		if f.usesIndex() {
			idx = append(idx, f)
		}
	}
	return idx
}

// ---------- system ----------

type txm struct {
	open    bool
	tx      gorp.Tx
	overlay map[int32]*string // nil = deleted
}

type sys struct {
	nKeys     int
	kv        *failKV
	db        *gorp.DB
	raw       *gorp.DB
	table     *gorp.Table[int32, Row]
	lidx      *gorp.LookupIndex[int32, Row, string]
	sidx      *gorp.SortedIndex[int32, Row, int64]
	committed map[int32]string
	txs       [2]*txm
	cat       []*ftree
	queries   int
}

var vals = []string{"", "b"} // includes the zero value of both indexed fields

// failKV lets the harness make the storage refuse one commit: a transaction whose commit
// fails must leave the table, and every index, exactly as an aborted one does.
type failKV struct {
	kv.DB
	failNext bool
}

type failTx struct {
	kv.Tx
	db *failKV
}

func (d *failKV) OpenTx() kv.Tx { return &failTx{Tx: d.DB.OpenTx(), db: d} }

func (t *failTx) Commit(ctx context.Context, opts ...any) error {
	if t.db.failNext {
		t.db.failNext = false
		return errors.New("injected: storage refused the commit")
	}
	return t.Tx.Commit(ctx, opts...)
}

func newSys(nKeys int, cat []*ftree) (*sys, error) {
	store := &failKV{DB: memkv.New()}
	s := &sys{nKeys: nKeys, kv: store, db: gorp.Wrap(store), raw: gorp.Wrap(store), committed: map[int32]string{}, cat: cat}
	s.txs[0], s.txs[1] = &txm{}, &txm{}
	if err := s.openTable(); err != nil {
		return nil, err
	}
	return s, nil
}

func (s *sys) openTable() error {
	s.lidx = gorp.NewLookupIndex[int32, Row, string]("cat", func(e *Row) string { return e.Cat })
	s.sidx = gorp.NewSortedIndex[int32, Row, int64]("score", func(e *Row) int64 { return e.Score })
	t, err := gorp.OpenTable(ctx, gorp.TableConfig[int32, Row]{DB: s.db, Indexes: []gorp.Index[int32, Row]{s.lidx, s.sidx}})
	if err != nil {
		return err
	}
	s.table = t
	return t.WaitForIndexes(ctx)
}

func (s *sys) Close() {
	for _, t := range s.txs {
		if t.open {
			_ = t.tx.Close()
		}
	}
	_ = s.table.Close()
	_ = s.kv.Close()
}

func (s *sys) view(ti int) map[int32]string {
	out := map[int32]string{}
	for k, v := range s.committed {
		out[k] = v
	}
	if ti >= 0 {
		for k, v := range s.txs[ti].overlay {
			if v == nil {
				delete(out, k)
			} else {
				out[k] = *v
			}
		}
	}
	return out
}

func (s *sys) handle(ti int) gorp.Tx {
	if ti < 0 {
		return s.db
	}
	return s.txs[ti].tx
}

func tname(ti int) string {
	if ti < 0 {
		return "db"
	}
	return fmt.Sprintf("T%d", ti+1)
}

func (s *sys) Ops() []string {
	var ops []string
	anyOpen := false
	for ti := -1; ti < 2; ti++ {
		if ti >= 0 && !s.txs[ti].open {
			ops = append(ops, "open:"+tname(ti))
			continue
		}
		if ti >= 0 {
			anyOpen = true
		}
		for k := 1; k <= s.nKeys; k++ {
			for _, v := range vals {
				ops = append(ops, fmt.Sprintf("set:%s:%d:%s", tname(ti), k, v))
			}
		}
		for k := 1; k <= s.nKeys; k++ {
			for _, v := range vals {
				ops = append(ops, fmt.Sprintf("upd:%s:%d:%s", tname(ti), k, v))
			}
			ops = append(ops, fmt.Sprintf("del:%s:%d", tname(ti), k))
		}
		if ti >= 0 {
			ops = append(ops, "commit:"+tname(ti), "abort:"+tname(ti), "commitfail:"+tname(ti))
		}
	}
	for k := 1; k <= s.nKeys; k++ {
		for _, v := range vals {
			ops = append(ops, fmt.Sprintf("repl:%d:%s", k, v))
		}
		ops = append(ops, fmt.Sprintf("repldel:%d", k))
	}
	if !anyOpen {
		ops = append(ops, "reopen")
	}
	return ops
}

func parseT(s string) int {
	switch s {
	case "db":
		return -1
	case "T1":
		return 0
	case "T2":
		return 1
	}
	panic("bad tx " + s)
}

func (s *sys) Apply(op string) (string, error) {
	p := strings.Split(op, ":")
	var k int32
	var v string
	atoi := func(x string) int32 { var n int32; fmt.Sscan(x, &n); return n }
	switch p[0] {
	case "open":
		t := s.txs[parseT(p[1])]
		t.tx = s.db.OpenTx()
		t.open = true
		t.overlay = map[int32]*string{}
		return "ok", nil
	case "commit", "abort", "commitfail":
		ti := parseT(p[1])
		t := s.txs[ti]
		var err error
		if p[0] == "commitfail" {
			s.kv.failNext = true
			if t.tx.Commit(ctx) == nil {
				return "", fmt.Errorf("harness: injected commit failure did not fail")
			}
		}
		if p[0] == "commit" {
			err = t.tx.Commit(ctx)
			if err == nil {
				for k, v := range t.overlay {
					if v == nil {
						delete(s.committed, k)
					} else {
						s.committed[k] = *v
					}
				}
			}
		}
		cerr := t.tx.Close()
		t.open, t.overlay, t.tx = false, nil, nil
		if err != nil || cerr != nil {
			return "", fmt.Errorf("%s failed: %v %v", p[0], err, cerr)
		}
		return "ok", nil
	case "set", "upd", "del":
		ti := parseT(p[1])
		k = atoi(p[2])
		if len(p) > 3 {
			v = p[3]
		}
		view := s.view(ti)
		_, exists := view[k]
		h := s.handle(ti)
		var err error
		switch p[0] {
		case "set":
			r := mkRow(k, v)
			err = s.table.NewCreate().Entry(&r).Exec(ctx, h)
		case "upd":
			err = s.table.NewUpdate().Where(gorp.MatchKeys[int32, Row](k)).Change(func(_ gorp.Context, e Row) Row {
				return mkRow(e.ID, v)
			}).Exec(ctx, h)
			if !exists {
				if err == nil || !errors.Is(err, query.ErrNotFound) {
					// updating a row that is not visible must not write anything; the API reports
					// not-found. Anything else is unexpected but only a property matter if state changes
					// (checked by the sweep).
					if err == nil {
						return "ok-noop", nil
					}
					return "", fmt.Errorf("update of missing row: unexpected error %v", err)
				}
				return "refused-notfound", nil
			}
		case "del":
			err = s.table.NewDelete().Where(gorp.MatchKeys[int32, Row](k)).Exec(ctx, h)
			if !exists {
				if err != nil {
					return "", fmt.Errorf("delete of missing row: unexpected error %v", err)
				}
				return "ok-noop", nil
			}
		}
		if err != nil {
			return "", fmt.Errorf("%s: unexpected error %v", op, err)
		}
		// model
		if ti < 0 {
			if p[0] == "del" {
				delete(s.committed, k)
			} else {
				s.committed[k] = v
			}
		} else {
			if p[0] == "del" {
				s.txs[ti].overlay[k] = nil
			} else {
				vv := v
				s.txs[ti].overlay[k] = &vv
			}
		}
		return "ok", nil
	case "repl":
		k, v = atoi(p[1]), p[2]
		if err := gorp.WrapWriter[int32, Row](s.raw).Set(ctx, mkRow(k, v)); err != nil {
			return "", err
		}
		s.committed[k] = v
		return "ok", nil
	case "repldel":
		k = atoi(p[1])
		if err := gorp.WrapWriter[int32, Row](s.raw).Delete(ctx, k); err != nil {
			return "", err
		}
		delete(s.committed, k)
		return "ok", nil
	case "reopen":
		if err := s.table.Close(); err != nil {
			return "", err
		}
		if err := s.openTable(); err != nil {
			return "", err
		}
		return "ok", nil
	}
	return "", fmt.Errorf("unknown op %s", op)
}

func canonMap(m map[int32]string) string {
	var ks []int
	for k := range m {
		ks = append(ks, int(k))
	}
	sort.Ints(ks)
	var b strings.Builder
	for _, k := range ks {
		fmt.Fprintf(&b, "%d=%s,", k, m[int32(k)])
	}
	return b.String()
}

func (s *sys) Canon() string {
	var b strings.Builder
	b.WriteString("C{" + canonMap(s.committed) + "}")
	for i, t := range s.txs {
		if !t.open {
			fmt.Fprintf(&b, " T%d:closed", i+1)
			continue
		}
		var ks []int
		for k := range t.overlay {
			ks = append(ks, int(k))
		}
		sort.Ints(ks)
		fmt.Fprintf(&b, " T%d{", i+1)
		for _, k := range ks {
			v := t.overlay[int32(k)]
			if v == nil {
				fmt.Fprintf(&b, "%d=DEL,", k)
			} else {
				fmt.Fprintf(&b, "%d=%s,", k, *v)
			}
		}
		b.WriteString("}")
	}
	// digest of the REAL state, so that two paths the model considers equal are only merged
	// when the implementation's observable state is equal too (otherwise a divergence reached
	// through an already-seen model state would never be checked)
	b.WriteString(" real:")
	for ti := -1; ti < 2; ti++ {
		if ti >= 0 && !s.txs[ti].open {
			continue
		}
		h := s.handle(ti)
		var rows []Row
		_ = s.table.NewRetrieve().Entries(&rows).Exec(ctx, h)
		sort.Slice(rows, func(i, j int) bool { return rows[i].ID < rows[j].ID })
		fmt.Fprintf(&b, "%v", rows)
		for _, v := range append([]string{"z"}, vals...) {
			var hh gorp.Tx
			if ti >= 0 {
				hh = h
			}
			k1, e1 := s.lidx.Get(hh, v)
			k2, e2 := s.sidx.Get(hh, scoreOf(v))
			slices.Sort(k1)
			slices.Sort(k2)
			fmt.Fprintf(&b, "%v%v%v%v;", k1, e1 != nil, k2, e2 != nil)
		}
	}
	return b.String()
}

func expectIDs(view map[int32]string, f func(Row) bool) []int32 {
	var out []int32
	for k, v := range view {
		if f(mkRow(k, v)) {
			out = append(out, k)
		}
	}
	slices.Sort(out)
	return out
}

func idsSorted(rs []Row) []int32 {
	out := make([]int32, len(rs))
	for i, r := range rs {
		out[i] = r.ID
	}
	slices.Sort(out)
	return out
}

func rowsOK(rs []Row, view map[int32]string) bool {
	for _, r := range rs {
		v, ok := view[r.ID]
		if !ok || mkRow(r.ID, v) != r {
			return false
		}
	}
	return true
}

func (s *sys) Check() error {
	// (R) committed index state == committed rows, nothing for aborted/deleted/uncommitted rows
	for _, v := range append([]string{"z"}, vals...) {
		want := expectIDs(s.committed, func(r Row) bool { return r.Cat == v })
		got, err := s.lidx.Get(nil, v)
		slices.Sort(got)
		if err != nil || !slices.Equal(got, want) {
			return vk.Violationf("lookup-committed", "LookupIndex.Get(nil,%s)=%v err=%v, committed rows with that value=%v (state %s)", v, got, err, want, s.Canon())
		}
		got, err = s.sidx.Get(nil, scoreOf(v))
		slices.Sort(got)
		if err != nil || !slices.Equal(got, want) {
			return vk.Violationf("sorted-committed", "SortedIndex.Get(nil,%d)=%v err=%v, committed rows with that value=%v (state %s)", scoreOf(v), got, err, want, s.Canon())
		}
	}
	for ti := -1; ti < 2; ti++ {
		if ti >= 0 && !s.txs[ti].open {
			continue
		}
		h := s.handle(ti)
		view := s.view(ti)
		// Get with tx
		for _, v := range vals {
			want := expectIDs(view, func(r Row) bool { return r.Cat == v })
			got, err := s.lidx.Get(h, v)
			slices.Sort(got)
			if err != nil || !slices.Equal(got, want) {
				return vk.Violationf("lookup-view", "LookupIndex.Get(%s,%s)=%v err=%v want %v (state %s)", tname(ti), v, got, err, want, s.Canon())
			}
			got, err = s.sidx.Get(h, scoreOf(v))
			slices.Sort(got)
			if err != nil || !slices.Equal(got, want) {
				return vk.Violationf("sorted-view", "SortedIndex.Get(%s,%d)=%v err=%v want %v (state %s)", tname(ti), scoreOf(v), got, err, want, s.Canon())
			}
		}
		for _, f := range s.cat {
			want := expectIDs(view, f.eval)
			for variant := 0; variant < 2; variant++ {
				var flt F
				name := "index"
				if variant == 0 {
					flt = s.indexFilter(f)
				} else {
					flt = scanFilter(f)
					name = "scan"
				}
				var rs []Row
				err := s.table.NewRetrieve().Where(flt).Entries(&rs).Exec(ctx, h)
				s.queries++
				if err != nil {
					return vk.Violationf("query-error:"+name, "%s Exec %s in %s: error %v (state %s)", name, f, tname(ti), err, s.Canon())
				}
				got := idsSorted(rs)
				if !slices.Equal(got, want) || !rowsOK(rs, view) {
					return vk.Violationf("query-mismatch:"+name+":"+f.String()+":"+tname(ti), "%s Exec %s in %s = %v (rows %v), model view says %v (state %s)", name, f, tname(ti), got, rs, want, s.Canon())
				}
				n, err := s.table.NewRetrieve().Where(flt).Count(ctx, h)
				if err != nil || n != len(want) {
					return vk.Violationf("count-mismatch:"+name+":"+f.String()+":"+tname(ti), "%s Count %s in %s = %d err=%v, want %d (state %s)", name, f, tname(ti), n, err, len(want), s.Canon())
				}
				ex, err := s.table.NewRetrieve().Where(flt).Exists(ctx, h)
				if err != nil || ex != (len(want) > 0) {
					return vk.Violationf("exists-mismatch:"+name+":"+f.String()+":"+tname(ti), "%s Exists %s in %s = %v err=%v, want %v (state %s)", name, f, tname(ti), ex, err, len(want) > 0, s.Canon())
				}
			}
		}
		// ordered pagination: only defined on committed state (documented: ordered walks do not
		// see staged writes), so judged where the view has no staged writes of its own.
		if ti >= 0 && len(s.txs[ti].overlay) > 0 {
			continue
		}
		if err := s.checkOrdered(ti, h, view); err != nil {
			return err
		}
	}
	return nil
}

func (s *sys) checkOrdered(ti int, h gorp.Tx, view map[int32]string) error {
	for _, dir := range []gorp.Direction{gorp.DirectionAsc, gorp.DirectionDesc} {
		for cur := int64(-2); cur <= 3; cur++ { // -2 = no cursor
			for limit := 0; limit <= 3; limit++ {
				q := s.sidx.Ordered(dir)
				if cur > -2 {
					q = q.After(cur)
				}
				var rs []Row
				rq := s.table.NewRetrieve().OrderBy(q).Entries(&rs)
				if limit > 0 {
					rq = rq.Limit(limit)
				}
				if err := rq.Exec(ctx, h); err != nil {
					return vk.Violationf("ordered-error", "ordered dir=%d cur=%d limit=%d in %s: %v", dir, cur, limit, tname(ti), err)
				}
				s.queries++
				// expected: rows strictly past the cursor, sorted by score in dir; ties any order
				var elig []Row
				for k, v := range view {
					r := mkRow(k, v)
					if cur > -2 && ((dir == gorp.DirectionAsc && r.Score <= cur) || (dir == gorp.DirectionDesc && r.Score >= cur)) {
						continue
					}
					elig = append(elig, r)
				}
				sort.Slice(elig, func(i, j int) bool {
					if dir == gorp.DirectionAsc {
						return elig[i].Score < elig[j].Score
					}
					return elig[i].Score > elig[j].Score
				})
				n := len(elig)
				if limit > 0 && limit < n {
					n = limit
				}
				fp := fmt.Sprintf("ordered-mismatch:dir%d:cur%d:lim%d:%s", dir, cur, limit, tname(ti))
				if len(rs) != n || !rowsOK(rs, view) {
					return vk.Violationf(fp, "ordered dir=%d cursor=%d limit=%d in %s returned %v, want %d rows from %v (state %s)", dir, cur, limit, tname(ti), rs, n, elig, s.Canon())
				}
				seen := map[int32]bool{}
				for i, r := range rs {
					if seen[r.ID] || r.Score != elig[i].Score {
						return vk.Violationf(fp, "ordered dir=%d cursor=%d limit=%d in %s returned %v, want score sequence of %v (state %s)", dir, cur, limit, tname(ti), rs, elig[:n], s.Canon())
					}
					seen[r.ID] = true
				}
			}
		}
		// ordered + where, no limit: == sorted filter(scan)
		for _, f := range s.cat[:12] {
			var rs []Row
			if err := s.table.NewRetrieve().OrderBy(s.sidx.Ordered(dir)).Where(s.indexFilter(f)).Entries(&rs).Exec(ctx, h); err != nil {
				return vk.Violationf("ordered-where-error", "ordered+where %s: %v", f, err)
			}
			s.queries++
			want := expectIDs(view, f.eval)
			if !slices.Equal(idsSorted(rs), want) || !rowsOK(rs, view) {
				return vk.Violationf("ordered-where-mismatch:"+f.String(), "ordered dir=%d where %s in %s = %v want ids %v (state %s)", dir, f, tname(ti), rs, want, s.Canon())
			}
			for i := 1; i < len(rs); i++ {
				if (dir == gorp.DirectionAsc && rs[i-1].Score > rs[i].Score) || (dir == gorp.DirectionDesc && rs[i-1].Score < rs[i].Score) {
					return vk.Violationf("ordered-where-order:"+f.String(), "ordered dir=%d where %s: not sorted: %v", dir, f, rs)
				}
			}
		}
	}
	return nil
}

func main() {
	r := vk.New("C17", "model_checking")
	nKeys, depth := 2, 6
	if !r.Quick() {
		nKeys, depth = 3, 7
	}
	cat := catalogue(nKeys)
	cfg := seqx.Config{
		Name: fmt.Sprintf("gorp-table keys=%d vals=2 txs=2", nKeys),
		New:  func() (seqx.Sys, error) { return newSys(nKeys, cat) },
		MaxDepth: depth, Deadline: r.Deadline(), Seed: r.Seed,
	}
	if r.Replay != "" {
		v, err := vk.LoadReplay(r.Replay)
		if err != nil {
			fmt.Fprintln(os.Stderr, err)
			os.Exit(2)
		}
		if strings.Contains(v.Scenario, "keys=3") {
			nKeys = 3
			cat = catalogue(3)
		}
		if err := seqx.Replay(cfg, v.Trace); err != nil {
			var vv *vk.Violation
			if errors.As(err, &vv) {
				vv.Trace = v.Trace
				vv.Scenario = v.Scenario
				r.Report(vv)
			} else {
				r.HarnessError("replay: %v", err)
			}
		} else {
			vk.NoRepro()
		}
		r.Finish()
	}
	st := seqx.Explore(r, cfg)
	seqx.Merge(r, st)
	r.Set("filter_trees_per_view", len(cat))
	r.Set("rule", "BFS over op sequences {open/commit/abort/commit-refused-by-the-storage T1,T2; set/upd/del in db|T1|T2; replicated set/del through the kv observer; table reopen}; states deduplicated on (committed rows, per-tx overlays); in every new state every filter tree is run via index and via gorp.Match in every view and compared with the model")
	r.Assume("memkv (pebble in-memory) is the storage; go1.26.8 toolchain instead of the repo's go1.26.3")
	r.Assume("ordered pagination is judged on views without own staged writes (documented limitation of walkOrder)")
	r.Finish()
}
