#!/bin/bash
# C17 = sequential BFS part (this package's main: interleaved transactions, filter trees, refused commits,
# replicated writes) + concurrent schedx part (../c17c: transactions committing at the same time).
# The sequential part writes a part file which the schedx part merges.
HERE="$(cd "$(dirname "$0")/../../.." && pwd)"
. "$HERE/bin/env.sh"
mkdir -p "$HERE/build/bin"
build_seq() {
  ( cd "$HERE/harness/x" && "$HERE/bin/gosum.sh" x && $VGO build -tags verif -o "$HERE/build/bin/c17" ./c17 ) || { echo "HARNESS-ERROR: build failed for C17" >&2; exit 2; }
}
if [ -n "${VERIF_REPLAY:-}" ] && ! grep -q '"scenario": *"X[0-9]' "$VERIF_REPLAY"; then
  build_seq
  exec "$HERE/build/bin/c17"
fi
PART="$HERE/build/c17-part1.json"; rm -f "$PART"
if [ -z "${VERIF_REPLAY:-}" ]; then
  build_seq
  # the sequential part gets at most two thirds of the budget
  B=${VERIF_BUDGET_S:-}; if [ -z "$B" ]; then if [ "${VERIF_TIER:-quick}" = thorough ]; then B=1200; else B=100; fi; fi
  T0=$(date +%s)
  VERIF_BUDGET_S=$((B*2/3)) VERIF_PART_OUT="$PART" "$HERE/build/bin/c17" || { echo "HARNESS-ERROR: sequential part of C17 failed" >&2; exit 2; }
  # the concurrent part gets what the sequential part left of the budget (at least a third)
  LEFT=$((B - ($(date +%s) - T0))); [ "$LEFT" -lt $((B/3)) ] && LEFT=$((B/3))
  export VERIF_PARTS="$PART" VERIF_BUDGET_S=$LEFT
fi
exec "$HERE/bin/schedx-run" x c17c "/repo/x/go /repo/alamos/go"
