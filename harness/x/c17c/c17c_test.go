// C17 (concurrent part) — indexed queries equal scans when transactions commit concurrently.
//
// The real gorp.Table with a LookupIndex and a SortedIndex on memkv is driven by two or three
// harness threads under the schedx controlled scheduler; each thread runs whole transactions
// (open, writes, commit or abort) and the interleavings are taken at gorp's lock operations
// (per-transaction state, index overlays, index locks) with a bounded number of preemptions.
// Oracle, after the threads finished: for every value of the alphabet the rows the lookup
// index and the sorted index return equal the rows a full scan with the equivalent predicate
// returns, and the table content equals the content after some serial order of the
// transactions.
package main

import (
	"context"
	"fmt"
	"os"
	"sort"
	"strings"
	"testing"
	"time"

	"github.com/synnaxlabs/x/gorp"
	"github.com/synnaxlabs/x/kv/memkv"
	"verifkit/schedx"
	"verifkit/vk"
)

type Row struct {
	ID    int32
	Cat   string
	Score int64
}

func (r Row) GorpKey() int32    { return r.ID }
func (r Row) SetOptions() []any { return nil }

func scoreOf(v string) int64 {
	if v == "" {
		return 0
	}
	return int64(v[0]-'a') + 1
}

var ctx = context.Background()

var values = []string{"a", "b", "c"}

type world struct {
	db    *gorp.DB
	table *gorp.Table[int32, Row]
	lidx  *gorp.LookupIndex[int32, Row, string]
	sidx  *gorp.SortedIndex[int32, Row, int64]
	close func()
}

// op is one step of a transaction: set k=v (create or overwrite) or delete k
type op struct {
	del bool
	k   int32
	v   string
}

type txn struct {
	ops   []op
	abort bool
	// direct: the writes go straight to the DB, outside a transaction
	direct bool
}

func (t txn) String() string {
	var p []string
	for _, o := range t.ops {
		if o.del {
			p = append(p, fmt.Sprintf("del %d", o.k))
		} else {
			p = append(p, fmt.Sprintf("set %d=%s", o.k, o.v))
		}
	}
	end := "commit"
	if t.abort {
		end = "abort"
	}
	if t.direct {
		end = "direct"
	}
	return "tx{" + strings.Join(p, "; ") + "; " + end + "}"
}

func (t txn) run(w *world) string {
	if t.direct {
		for _, o := range t.ops {
			var err error
			if o.del {
				err = w.table.NewDelete().Where(gorp.MatchKeys[int32, Row](o.k)).Exec(ctx, w.db)
			} else {
				r := Row{ID: o.k, Cat: o.v, Score: scoreOf(o.v)}
				err = w.table.NewCreate().Entry(&r).Exec(ctx, w.db)
			}
			if err != nil {
				return t.String() + ": " + err.Error()
			}
		}
		return t.String() + ": ok"
	}
	tx := w.db.OpenTx()
	for _, o := range t.ops {
		var err error
		if o.del {
			err = w.table.NewDelete().Where(gorp.MatchKeys[int32, Row](o.k)).Exec(ctx, tx)
		} else {
			r := Row{ID: o.k, Cat: o.v, Score: scoreOf(o.v)}
			err = w.table.NewCreate().Entry(&r).Exec(ctx, tx)
		}
		if err != nil {
			_ = tx.Close()
			return t.String() + ": " + err.Error()
		}
	}
	if t.abort {
		_ = tx.Close()
		return t.String() + ": aborted"
	}
	err := tx.Commit(ctx)
	_ = tx.Close()
	if err != nil {
		return t.String() + ": commit " + err.Error()
	}
	return t.String() + ": ok"
}

type scenario struct {
	name    string
	initial []op
	threads [][]txn
}

var scenarios = []scenario{
	{"X1 two transactions overwrite the same row with different values", []op{{false, 1, "a"}},
		[][]txn{{{ops: []op{{false, 1, "b"}}}}, {{ops: []op{{false, 1, "c"}}}}}},
	{"X2 one transaction deletes a row, another overwrites it", []op{{false, 1, "a"}, {false, 2, "a"}},
		[][]txn{{{ops: []op{{true, 1, ""}}}}, {{ops: []op{{false, 1, "b"}, {false, 2, "b"}}}}}},
	{"X3 three transactions: overwrite, move to the other's value, abort", []op{{false, 1, "a"}, {false, 2, "b"}},
		[][]txn{{{ops: []op{{false, 1, "b"}}}}, {{ops: []op{{false, 2, "a"}, {false, 1, "c"}}}}, {{ops: []op{{false, 2, "c"}}, abort: true}}}},
	{"X5 two writers overwrite the same row directly on the DB", []op{{false, 1, "a"}},
		[][]txn{{{ops: []op{{false, 1, "b"}}, direct: true}}, {{ops: []op{{false, 1, "c"}}, direct: true}}}},
	{"X6 a transaction commits while a direct write overwrites the same row", []op{{false, 1, "a"}},
		[][]txn{{{ops: []op{{false, 1, "b"}}}}, {{ops: []op{{false, 1, "c"}}, direct: true}}}},
	{"X4 two transactions per thread on one row", []op{{false, 1, "a"}},
		[][]txn{{{ops: []op{{false, 1, "b"}}}, {ops: []op{{true, 1, ""}}}}, {{ops: []op{{false, 1, "c"}}}, {ops: []op{{false, 1, "a"}}}}}},
}

func build(sc scenario) (*world, string) {
	store := memkv.New()
	db := gorp.Wrap(store)
	w := &world{db: db}
	w.lidx = gorp.NewLookupIndex[int32, Row, string]("cat", func(e *Row) string { return e.Cat })
	w.sidx = gorp.NewSortedIndex[int32, Row, int64]("score", func(e *Row) int64 { return e.Score })
	t, err := gorp.OpenTable(ctx, gorp.TableConfig[int32, Row]{DB: db, Indexes: []gorp.Index[int32, Row]{w.lidx, w.sidx}})
	if err != nil {
		return nil, "setup: " + err.Error()
	}
	w.table = t
	if err := t.WaitForIndexes(ctx); err != nil {
		return nil, "setup: " + err.Error()
	}
	w.close = func() { _ = t.Close(); _ = store.Close() }
	if len(sc.initial) > 0 {
		if r := (txn{ops: sc.initial}).run(w); !strings.HasSuffix(r, ": ok") {
			return nil, "setup: " + r
		}
	}
	time.Sleep(time.Millisecond) // let goroutines of the set-up finish (fake time inside a bubble)
	return w, ""
}

func rowsStr(rs []Row) string {
	sort.Slice(rs, func(i, j int) bool { return rs[i].ID < rs[j].ID })
	var p []string
	for _, r := range rs {
		p = append(p, fmt.Sprintf("%d=%s/%d", r.ID, r.Cat, r.Score))
	}
	return "[" + strings.Join(p, " ") + "]"
}

// observe returns the table content and, separately, the first disagreement between an
// index path and the equivalent scan ("" if none)
func (w *world) observe() (content, mismatch string) {
	var all []Row
	if err := w.table.NewRetrieve().Entries(&all).Exec(ctx, w.db); err != nil {
		return "scan error " + err.Error(), ""
	}
	content = rowsStr(all)
	for _, v := range append([]string{""}, values...) {
		var viaL, viaS, scanL []Row
		errL := w.table.NewRetrieve().Where(w.lidx.Filter(v)).Entries(&viaL).Exec(ctx, w.db)
		errS := w.table.NewRetrieve().Where(w.sidx.Filter(scoreOf(v))).Entries(&viaS).Exec(ctx, w.db)
		errM := w.table.NewRetrieve().Where(gorp.Match[int32, Row](func(_ gorp.Context, e *Row) (bool, error) { return e.Cat == v, nil })).Entries(&scanL).Exec(ctx, w.db)
		if errM != nil {
			return content, fmt.Sprintf("scan for %q failed: %v", v, errM)
		}
		want := rowsStr(scanL)
		if errL != nil || rowsStr(viaL) != want {
			return content, fmt.Sprintf("lookup index for Cat=%q returns %s (err %v), the scan returns %s", v, rowsStr(viaL), errL, want)
		}
		if errS != nil || rowsStr(viaS) != want {
			return content, fmt.Sprintf("sorted index for Score=%d returns %s (err %v), the scan returns %s", scoreOf(v), rowsStr(viaS), errS, want)
		}
	}
	return content, ""
}

// serialContents: table content after every merge of the threads' transaction lists run one
// transaction at a time
func serialContents(sc scenario) map[string]bool {
	out := map[string]bool{}
	idx := make([]int, len(sc.threads))
	var order []int
	var rec func()
	rec = func() {
		done := true
		for t := range sc.threads {
			if idx[t] < len(sc.threads[t]) {
				done = false
				idx[t]++
				order = append(order, t)
				rec()
				order = order[:len(order)-1]
				idx[t]--
			}
		}
		if done {
			w, e := build(sc)
			if e != "" {
				out[e] = true
				return
			}
			pos := make([]int, len(sc.threads))
			for _, t := range order {
				sc.threads[t][pos[t]].run(w)
				pos[t]++
			}
			c, _ := w.observe()
			w.close()
			out[c] = true
		}
	}
	rec()
	return out
}

func body(sc scenario) schedx.Body {
	return func(t *testing.T, run func(threads ...func()) bool) string {
		w, e := build(sc)
		if e != "" {
			return e
		}
		defer w.close()
		res := make([][]string, len(sc.threads))
		var ths []func()
		for i := range sc.threads {
			ths = append(ths, func() {
				for _, x := range sc.threads[i] {
					schedx.Point("tx")
					res[i] = append(res[i], x.run(w))
				}
			})
		}
		if run(ths...) {
			return "deadlock"
		}
		var parts []string
		for i, r := range res {
			parts = append(parts, fmt.Sprintf("T%d[%s]", i+1, strings.Join(r, ", ")))
		}
		content, mismatch := w.observe()
		out := strings.Join(parts, " ") + " | " + content
		if mismatch != "" {
			out += " | INDEX: " + mismatch
		}
		return out
	}
}

type viol struct {
	v       *vk.Violation
	choices []int
}

func (v *viol) Error() string { return v.v.Error() }

var (
	inflightSlot int
	inflightName string
)

func judge(sc scenario, serial map[string]bool, out string, dl bool, choices []int) *vk.Violation {
	if dl {
		return vk.Violationf("concurrent:deadlock:"+sc.name[:2], "schedule %v deadlocks", choices)
	}
	if i := strings.Index(out, " | INDEX: "); i >= 0 {
		return vk.Violationf("concurrent:index-differs-from-scan:"+sc.name[:2], "schedule %v: %s\n  %s", choices, out[i+10:], out[:i])
	}
	i := strings.LastIndex(out, " | ")
	if i < 0 || !serial[out[i+3:]] {
		var ss []string
		for s := range serial {
			ss = append(ss, s)
		}
		sort.Strings(ss)
		return vk.Violationf("concurrent:content-matches-no-serial-order:"+sc.name[:2], "schedule %v leaves a table content no serial order of the transactions produces:\n  %s\nserial contents: %s", choices, out, strings.Join(ss, " | "))
	}
	return nil
}

func TestCheck(t *testing.T) {
	r := vk.New("C17", "model_checking")
	bound := 2
	if !r.Quick() {
		bound = 3
	}
	if r.Replay != "" {
		v, err := vk.LoadReplay(r.Replay)
		if err != nil {
			fmt.Fprintln(os.Stderr, err)
			os.Exit(2)
		}
		for _, sc := range scenarios {
			if sc.name != v.Scenario {
				continue
			}
			var prefix []int
			for _, f := range strings.Fields(strings.Trim(v.Trace[0], "[]")) {
				var n int
				fmt.Sscan(f, &n)
				prefix = append(prefix, n)
			}
			_, out, dl := schedx.RunOnce(t, schedx.Config{Body: body(sc)}, prefix)
			if vv := judge(sc, serialContents(sc), out, dl, prefix); vv != nil {
				vv.Scenario, vv.Trace = v.Scenario, v.Trace
				r.Report(vv)
			} else {
				vk.NoRepro()
			}
		}
		r.Finish()
	}
	r.MergeParts()
	total, distinct := 0, 0
	exhaustive := true
	var subs []any
	for i, sc := range scenarios {
		serial := serialContents(sc)
		time.Sleep(5 * time.Millisecond)
		inflightSlot, inflightName = 0, sc.name
		cfg := schedx.Config{Name: sc.name, Body: body(sc), Preemptions: bound,
			Deadline: time.Now().Add(r.Left() / time.Duration(len(scenarios)-i)), OnExec: vk.Beat,
			OnRun: func(p []int) { vk.Inflight(inflightSlot, inflightName, []string{fmt.Sprint(p)}) }, MaxSteps: 5000,
			Check: func(out string, dl bool, choices []int) error {
				if vv := judge(sc, serial, out, dl, choices); vv != nil {
					return &viol{vv, choices}
				}
				return nil
			}}
		st, err := schedx.Explore(t, cfg)
		total += st.Executions
		distinct += st.Distinct
		exhaustive = exhaustive && st.Exhaustive
		subs = append(subs, st)
		if err != nil {
			if vv, ok := err.(*viol); ok {
				vv.v.Scenario, vv.v.Trace = sc.name, []string{fmt.Sprint(vv.choices)}
				r.Report(vv.v)
			} else {
				r.HarnessError("%v", err)
			}
		}
	}
	r.Set("concurrent_schedules", total)
	r.Add("traces_validated_against_impl", total)
	r.Add("transitions", total)
	r.Set("concurrent_distinct_outcomes", distinct)
	r.Set("concurrent_preemption_bound", bound)
	r.Set("concurrent_explorations", subs)
	if !exhaustive {
		r.Set("exhaustive", false)
	}
	r.Finish()
}
