module github.com/synnaxlabs/freighter/zverif

go 1.26.3

replace (
	github.com/synnaxlabs/alamos => /repo/alamos/go
	github.com/synnaxlabs/x => /repo/x/go
)

require (
	github.com/cockroachdb/cmux v0.0.0-20250514152509-914d3bf9ec58
	github.com/fasthttp/websocket v1.5.12
	github.com/gofiber/contrib/v3/websocket v1.1.5
	github.com/gofiber/fiber/v3 v3.2.0
	github.com/gofiber/utils/v2 v2.0.5
	github.com/onsi/ginkgo/v2 v2.29.0
	github.com/onsi/gomega v1.41.0
	github.com/samber/lo v1.53.0
	github.com/synnaxlabs/alamos v0.0.0
	github.com/synnaxlabs/x v0.0.0
	go.uber.org/zap v1.28.0
	google.golang.org/grpc v1.81.1
	google.golang.org/protobuf v1.36.11
)

require (
	github.com/Masterminds/semver/v3 v3.5.0 // indirect
	github.com/andybalholm/brotli v1.2.1 // indirect
	github.com/cenkalti/backoff/v5 v5.0.3 // indirect
	github.com/cespare/xxhash/v2 v2.3.0 // indirect
	github.com/cockroachdb/errors v1.13.0 // indirect
	github.com/cockroachdb/logtags v0.0.0-20241215232642-bb51bb14a506 // indirect
	github.com/cockroachdb/redact v1.1.8 // indirect
	github.com/getsentry/sentry-go v0.46.2 // indirect
	github.com/go-logr/logr v1.4.3 // indirect
	github.com/go-logr/stdr v1.2.2 // indirect
	github.com/go-task/slim-sprig/v3 v3.0.0 // indirect
	github.com/gofiber/schema v1.7.1 // indirect
	github.com/gogo/protobuf v1.3.2 // indirect
	github.com/google/go-cmp v0.7.0 // indirect
	github.com/google/pprof v0.0.0-20260507013755-92041b743c96 // indirect
	github.com/google/uuid v1.6.0 // indirect
	github.com/grpc-ecosystem/grpc-gateway/v2 v2.29.0 // indirect
	github.com/klauspost/compress v1.18.6 // indirect
	github.com/kr/pretty v0.3.1 // indirect
	github.com/kr/text v0.2.0 // indirect
	github.com/mattn/go-colorable v0.1.14 // indirect
	github.com/mattn/go-isatty v0.0.22 // indirect
	github.com/philhofer/fwd v1.2.0 // indirect
	github.com/pkg/errors v0.9.1 // indirect
	github.com/rogpeppe/go-internal v1.14.1 // indirect
	github.com/savsgio/gotils v0.0.0-20250924091648-bce9a52d7761 // indirect
	github.com/tinylib/msgp v1.6.4 // indirect
	github.com/uptrace/uptrace-go v1.43.0 // indirect
	github.com/valyala/bytebufferpool v1.0.0 // indirect
	github.com/valyala/fasthttp v1.71.0 // indirect
	github.com/vmihailenco/msgpack/v5 v5.4.1 // indirect
	github.com/vmihailenco/tagparser/v2 v2.0.0 // indirect
	go.opentelemetry.io/auto/sdk v1.2.1 // indirect
	go.opentelemetry.io/contrib/instrumentation/runtime v0.68.0 // indirect
	go.opentelemetry.io/contrib/processors/minsev v0.16.0 // indirect
	go.opentelemetry.io/otel v1.43.0 // indirect
	go.opentelemetry.io/otel/exporters/otlp/otlplog/otlploghttp v0.19.0 // indirect
	go.opentelemetry.io/otel/exporters/otlp/otlpmetric/otlpmetrichttp v1.43.0 // indirect
	go.opentelemetry.io/otel/exporters/otlp/otlptrace v1.43.0 // indirect
	go.opentelemetry.io/otel/exporters/otlp/otlptrace/otlptracehttp v1.43.0 // indirect
	go.opentelemetry.io/otel/exporters/stdout/stdouttrace v1.43.0 // indirect
	go.opentelemetry.io/otel/log v0.19.0 // indirect
	go.opentelemetry.io/otel/metric v1.43.0 // indirect
	go.opentelemetry.io/otel/sdk v1.43.0 // indirect
	go.opentelemetry.io/otel/sdk/log v0.19.0 // indirect
	go.opentelemetry.io/otel/sdk/metric v1.43.0 // indirect
	go.opentelemetry.io/otel/trace v1.43.0 // indirect
	go.opentelemetry.io/proto/otlp v1.10.0 // indirect
	go.uber.org/multierr v1.11.0 // indirect
	go.yaml.in/yaml/v3 v3.0.4 // indirect
	golang.org/x/crypto v0.51.0 // indirect
	golang.org/x/exp v0.0.0-20260508232706-74f9aab9d74a // indirect
	golang.org/x/mod v0.36.0 // indirect
	golang.org/x/net v0.54.0 // indirect
	golang.org/x/sync v0.20.0 // indirect
	golang.org/x/sys v0.44.0 // indirect
	golang.org/x/text v0.37.0 // indirect
	golang.org/x/tools v0.45.0 // indirect
	google.golang.org/genproto/googleapis/api v0.0.0-20260511170946-3700d4141b60 // indirect
	google.golang.org/genproto/googleapis/rpc v0.0.0-20260511170946-3700d4141b60 // indirect
	google.golang.org/grpc/examples v0.0.0-20250407062114-b368379ef8f6 // indirect
)

require github.com/synnaxlabs/freighter v0.0.0
require verifkit v0.0.0
replace github.com/synnaxlabs/freighter => /repo/freighter/go
replace verifkit => /verif/kit
