// C14 — freighter streams deliver in order, once, with a definite end, on all transports.
//
// Bounded exhaustive enumeration of scripts x interleavings on the three real Go
// transports (in-memory mock, WebSocket over a loopback fiber server, gRPC over a
// loopback listener). A script is a client op list over {Send, CloseSend, Receive}, a
// handler op list over {Receive, Send} and the handler's return value. An interleaving is
// a merge of the two lists in which a Receive is issued only once a message for it or the
// peer's end (CloseSend / handler return) has already been issued, so every operation
// returns and the expected result of every operation is defined by the documented stream
// semantics (freighter/go/stream.go) and computed by a small reference model. Every
// feasible interleaving of every script is executed on a fresh stream of every transport.
package main

import (
	"context"
	"fmt"
	"net"
	"net/http"
	"os"
	"strings"
	"sync"
	"time"

	"github.com/gofiber/fiber/v3"
	"github.com/synnaxlabs/freighter"
	fgrpc "github.com/synnaxlabs/freighter/grpc"
	v1 "github.com/synnaxlabs/freighter/grpc/v1"
	fhttp "github.com/synnaxlabs/freighter/http"
	"github.com/synnaxlabs/freighter/mock"
	ftest "github.com/synnaxlabs/freighter/test"
	"github.com/synnaxlabs/x/address"
	"github.com/synnaxlabs/x/encoding/json"
	"github.com/synnaxlabs/x/errors"
	xnet "github.com/synnaxlabs/x/net"
	"google.golang.org/grpc"
	"google.golang.org/grpc/credentials/insecure"
	"verifkit/vk"
)

type (
	Req = ftest.Request
	Res = ftest.Response
)

// ---- handler return kinds

var errPlain = errors.New("plain unregistered failure")

type retKind struct {
	name string
	err  error
}

var retKinds = []retKind{
	{"nil", nil},
	{"custom-registered", ftest.ErrCustom},
	{"unregistered", errPlain},
	{"eof", freighter.EOF},
	{"stream-closed", freighter.ErrStreamClosed},
	{"eof-wrapped-with-message", errors.Wrap(freighter.EOF, "handler is done")},
	{"eof-with-stack", errors.WithStack(freighter.EOF)},
	{"custom-registered-wrapped", errors.Wrap(ftest.ErrCustom, "while handling")},
}

// ---- scripts

type script struct {
	client string // ops: S send, C close send, R receive
	server string // ops: r receive, s send; the handler then returns ret
	ret    int
	big    int // index of the message that carries a large payload (-1: none)
}

func (s script) String() string {
	return fmt.Sprintf("client=%q handler=%q returns=%s big=%d", s.client, s.server, retKinds[s.ret].name, s.big)
}

func seqs(alpha string, maxLen int) []string {
	out := []string{""}
	var rec func(p string)
	rec = func(p string) {
		if len(p) == maxLen {
			return
		}
		for _, c := range alpha {
			q := p + string(c)
			out = append(out, q)
			rec(q)
		}
	}
	rec("")
	return out
}

func clientOK(c string) bool {
	// at most one CloseSend (a second one is not specified)
	return strings.Count(c, "C") <= 1
}

// ---- reference model

type model struct {
	sent, recvd         int // requests issued / received by the handler
	rsent, rrecvd       int // responses issued / received by the client
	closedSend          bool
	returned            bool
	retErr              error
	clientTerm, srvTerm bool
	big                 int // id of the large request (1..) or 100 + id of the large response; -1 none
	// bounded buffers (0: none). A Send or CloseSend issued while the buffer of its direction
	// is full does not return until the peer has taken a message out: the operation is
	// pending, its side issues nothing else, and the side's next event is its completion.
	reqCap, resCap int
	pendC          byte // 0, 'S' or 'C'
	pendS          bool
	marker         bool // the end-of-requests marker sits in the request buffer
	late           int  // Sends issued after the handler returned: each may sit in the buffer for good
}

func (m *model) reqInflight() int {
	n := m.sent - m.recvd + m.late
	if m.marker && !m.srvTerm {
		n++
	}
	return n
}

func (m *model) resInflight() int { return m.rsent - m.rrecvd }

// pending reports whether the side has an operation that has not returned yet
func (m *model) pending(side byte) bool {
	return side == 'c' && m.pendC != 0 || side == 's' && m.pendS
}

// complete applies the effect of the side's pending operation, which can return now
func (m *model) complete(side byte) expect {
	if side == 's' {
		m.pendS = false
		m.rsent++
		return expect{kind: "ok"}
	}
	op := m.pendC
	m.pendC = 0
	if op == 'C' {
		m.closedSend, m.marker = true, true
		return expect{kind: "ok"}
	}
	if m.returned {
		m.late++ // it may have found room just before the handler returned
		return expect{kind: "ok-or-eof"}
	}
	m.sent++
	return expect{kind: "ok"}
}

type expect struct {
	kind string // "ok", "msg", "eof", "err", "closed", "ok-or-eof"
	id   int
	err  error
}

func (e expect) String() string {
	switch e.kind {
	case "msg":
		return fmt.Sprintf("message #%d", e.id)
	case "err":
		return fmt.Sprintf("error %v", e.err)
	}
	return e.kind
}

// enabled reports whether op may be issued now such that it is guaranteed to return
func (m *model) enabled(side byte, op byte) bool {
	if side == 'c' && m.pendC != 0 {
		// a blocked Send also returns once the handler has returned; a blocked CloseSend
		// waits for room in the buffer
		return m.reqInflight() < m.reqCap || m.pendC == 'S' && m.returned
	}
	if side == 's' && m.pendS {
		return m.resInflight() < m.resCap
	}
	// transports with flow control (gRPC) block a sender while a large message is in
	// flight: nothing more is issued in that direction until it has been received
	if m.big >= 1 && m.big < 100 && side == 'c' && (op == 'S' || op == 'C') && m.sent >= m.big && m.recvd < m.big {
		return false
	}
	if m.big > 100 && side == 's' && op == 's' && m.rsent >= m.big-100 && m.rrecvd < m.big-100 {
		return false
	}
	switch {
	case side == 'c' && op == 'R':
		return m.rrecvd < m.rsent || m.returned
	case side == 's' && op == 'r':
		return m.recvd < m.sent || m.closedSend
	}
	return true
}

func (m *model) step(side byte, op byte, ret error) expect {
	switch {
	case side == 'c' && op == 'S':
		if m.closedSend && m.returned {
			return expect{kind: "closed-or-eof"} // both documented failure cases apply
		}
		if m.closedSend {
			return expect{kind: "closed"}
		}
		if m.returned {
			// documented: EOF once the server closed; the client may not have learnt it yet
			if m.reqCap > 0 && m.reqInflight() >= m.reqCap {
				return expect{kind: "eof"} // no room and nobody to make any: only the closed server is left to answer
			}
			m.late++
			return expect{kind: "ok-or-eof"}
		}
		if m.reqCap > 0 && m.reqInflight() >= m.reqCap {
			m.pendC = 'S'
			return expect{kind: "pending"}
		}
		m.sent++
		return expect{kind: "ok"}
	case side == 'c' && op == 'C':
		if m.reqCap > 0 && m.reqInflight() >= m.reqCap {
			m.pendC = 'C'
			return expect{kind: "pending"}
		}
		m.closedSend, m.marker = true, true
		return expect{kind: "ok"}
	case side == 'c' && op == 'R':
		if m.rrecvd < m.rsent {
			m.rrecvd++
			return expect{kind: "msg", id: m.rrecvd}
		}
		m.clientTerm = true
		if m.retErr == nil || errors.Is(m.retErr, freighter.EOF) {
			return expect{kind: "eof"}
		}
		return expect{kind: "err", err: m.retErr}
	case side == 's' && op == 'r':
		if m.recvd < m.sent {
			m.recvd++
			return expect{kind: "msg", id: m.recvd}
		}
		m.srvTerm = true
		return expect{kind: "eof"}
	case side == 's' && op == 's':
		if m.resCap > 0 && m.resInflight() >= m.resCap {
			m.pendS = true
			return expect{kind: "pending"}
		}
		m.rsent++
		return expect{kind: "ok"}
	case side == 's' && op == 'x':
		m.returned, m.retErr = true, ret
		return expect{kind: "ok"}
	}
	panic("step")
}

// orders enumerates every feasible merge of the client ops and the handler ops (+ return).
// With bounded buffers an event of a side whose operation is pending is that operation's
// completion.
func orders(sc script, reqCap, resCap int) []string {
	srv := sc.server + "x"
	var out []string
	var rec func(ci, si int, m model, acc []byte)
	rec = func(ci, si int, m model, acc []byte) {
		if ci == len(sc.client) && si == len(srv) && !m.pending('c') && !m.pending('s') {
			out = append(out, string(acc))
			return
		}
		if m.pending('c') {
			if m.enabled('c', 0) {
				m2 := m
				m2.complete('c')
				rec(ci, si, m2, append(append([]byte{}, acc...), 'c'))
			}
		} else if ci < len(sc.client) && m.enabled('c', sc.client[ci]) {
			m2 := m
			m2.step('c', sc.client[ci], retKinds[sc.ret].err)
			rec(ci+1, si, m2, append(append([]byte{}, acc...), 'c'))
		}
		if m.pending('s') {
			if m.enabled('s', 0) {
				m2 := m
				m2.complete('s')
				rec(ci, si, m2, append(append([]byte{}, acc...), 's'))
			}
		} else if si < len(srv) && m.enabled('s', srv[si]) {
			m2 := m
			m2.step('s', srv[si], retKinds[sc.ret].err)
			rec(ci, si+1, m2, append(append([]byte{}, acc...), 's'))
		}
	}
	rec(0, 0, model{big: sc.big, reqCap: reqCap, resCap: resCap}, nil)
	return out
}

// ---- transports

type transport struct {
	name           string
	reqCap, resCap int
	idle           time.Duration // the handler stays idle this long before it returns
	server         freighter.StreamServer[Req, Res]
	client         freighter.StreamClient[Req, Res]
	addr           address.Address
	mu             sync.Mutex
	cur            *run
	stop           func()
}

type srvCmd struct {
	op  byte
	msg Res
	ret error
}

type opResult struct {
	req Req
	res Res
	err error
}

type run struct {
	cmds    chan srvCmd
	results chan opResult
	done    chan struct{}
}

func (t *transport) bind() {
	t.server.BindHandler(func(ctx context.Context, s freighter.ServerStream[Req, Res]) error {
		t.mu.Lock()
		r := t.cur
		t.mu.Unlock()
		if r == nil {
			return errors.New("harness: no run bound")
		}
		defer close(r.done)
		for c := range r.cmds {
			switch c.op {
			case 'r':
				q, err := s.Receive()
				r.results <- opResult{req: q, err: err}
			case 's':
				r.results <- opResult{err: s.Send(c.msg)}
			case 'x':
				r.results <- opResult{}
				if t.idle > 0 {
					time.Sleep(t.idle)
				}
				return c.ret
			}
		}
		return nil
	})
}

func mockTransport() *transport {
	ss, sc := mock.NewStreamPair[Req, Res](16, 16)
	t := &transport{name: "mock", server: ss, client: sc, addr: "localhost:0", stop: func() {}}
	t.bind()
	return t
}

// mockTight is the in-memory transport with one-message buffers: senders run into a full
// buffer and wait for the peer.
func mockTight() *transport {
	ss, sc := mock.NewStreamPair[Req, Res](1, 1)
	t := &transport{name: "mock-1-message-buffers", reqCap: 1, resCap: 1, server: ss, client: sc, addr: "localhost:0", stop: func() {}}
	t.bind()
	return t
}

func wsTransport() (*transport, error) { return wsTransportWith("websocket", 5*time.Second, 0) }

// wsIdle is the WebSocket transport with a short per-message write deadline and a handler
// that stays idle for longer than that before it returns (the property quantifies over
// arbitrary timing between the two sides).
func wsIdle() (*transport, error) {
	return wsTransportWith("websocket-idle-handler", 100*time.Millisecond, 160*time.Millisecond)
}

func wsTransportWith(name string, writeDeadline, idle time.Duration) (*transport, error) {
	port, err := xnet.FindOpenPort()
	if err != nil {
		return nil, err
	}
	addr := address.Newf("localhost:%d", port)
	app := fiber.New(fiber.Config{})
	router, err := fhttp.NewRouter(fhttp.RouterConfig{StreamWriteDeadline: writeDeadline})
	if err != nil {
		return nil, err
	}
	app.Get("/health", func(c fiber.Ctx) error { return c.SendStatus(fiber.StatusOK) })
	server := fhttp.NewStreamServer[Req, Res](router, "/")
	client, err := fhttp.NewStreamClient[Req, Res](fhttp.StreamClientConfig{Codec: json.Codec})
	if err != nil {
		return nil, err
	}
	router.BindTo(app)
	go func() { _ = app.Listen(addr.PortString(), fiber.ListenConfig{DisableStartupMessage: true}) }()
	deadline := time.Now().Add(20 * time.Second)
	for {
		if r, err := http.Get("http://" + addr.String() + "/health"); err == nil {
			_ = r.Body.Close()
			break
		}
		if time.Now().After(deadline) {
			return nil, errors.New("websocket server did not start")
		}
		time.Sleep(2 * time.Millisecond)
	}
	t := &transport{name: name, idle: idle, server: server, client: client, addr: addr, stop: func() { _ = app.Shutdown() }}
	t.bind()
	return t, nil
}

type reqTr struct{}

func (reqTr) Forward(_ context.Context, r Req) (*v1.Request, error) {
	return &v1.Request{Id: int32(r.ID), Message: r.Message}, nil
}
func (reqTr) Backward(_ context.Context, r *v1.Request) (Req, error) {
	return Req{ID: int(r.Id), Message: r.Message}, nil
}

type resTr struct{}

func (resTr) Forward(_ context.Context, r Res) (*v1.Response, error) {
	return &v1.Response{Id: int32(r.ID), Message: r.Message}, nil
}
func (resTr) Backward(_ context.Context, r *v1.Response) (Res, error) {
	return Res{ID: int(r.Id), Message: r.Message}, nil
}

type grpcStreamServer struct {
	fgrpc.StreamServerCore[Req, *v1.Request, Res, *v1.Response]
}

func (s *grpcStreamServer) Exec(stream v1.TestStreamService_ExecServer) error {
	return s.Handler(stream.Context(), stream)
}

func grpcTransport() (*transport, error) {
	lis, err := net.Listen("tcp", "localhost:0")
	if err != nil {
		return nil, err
	}
	addr := address.Address(lis.Addr().String())
	gs := grpc.NewServer(grpc.MaxRecvMsgSize(16<<20), grpc.MaxSendMsgSize(16<<20))
	ss := &grpcStreamServer{StreamServerCore: fgrpc.StreamServerCore[Req, *v1.Request, Res, *v1.Response]{
		RequestTranslator: reqTr{}, ResponseTranslator: resTr{}, ServiceDesc: &v1.TestStreamService_ServiceDesc, Internal: true}}
	v1.RegisterTestStreamServiceServer(gs, ss)
	pool := fgrpc.NewPool("", grpc.WithTransportCredentials(insecure.NewCredentials()),
		grpc.WithDefaultCallOptions(grpc.MaxCallRecvMsgSize(16<<20), grpc.MaxCallSendMsgSize(16<<20)))
	client := &fgrpc.StreamClient[Req, *v1.Request, Res, *v1.Response]{
		RequestTranslator: reqTr{}, ResponseTranslator: resTr{}, Pool: pool, ServiceDesc: &v1.TestStreamService_ServiceDesc,
		ClientFunc: func(ctx context.Context, conn grpc.ClientConnInterface) (fgrpc.GRPCClientStream[*v1.Request, *v1.Response], error) {
			return v1.NewTestStreamServiceClient(conn).Exec(ctx)
		}}
	go func() { _ = gs.Serve(lis) }()
	t := &transport{name: "grpc", server: &ss.StreamServerCore, client: client, addr: addr, stop: gs.Stop}
	t.bind()
	return t, nil
}

var confirmMu sync.Mutex

// ---- execution of one interleaving

var opLimit = 30 * time.Second // 120 s when a hang is being confirmed

func payload(id int, big bool) string {
	if big {
		return fmt.Sprintf("m%d:", id) + strings.Repeat("x", 300_000)
	}
	return fmt.Sprintf("m%d", id)
}

type viol struct {
	fp, detail string
}

func classify(err error) string {
	switch {
	case err == nil:
		return "nil"
	case errors.Is(err, freighter.EOF):
		return "EOF"
	case errors.Is(err, freighter.ErrStreamClosed):
		return "StreamClosed"
	case errors.Is(err, ftest.ErrCustom):
		return "ErrCustom"
	case errors.Is(err, context.Canceled):
		return "context.Canceled"
	}
	m := err.Error()
	if len(m) > 80 {
		m = m[:80]
	}
	return "error(" + m + ")"
}

func matches(e expect, msgID int, msgText string, err error, big bool) bool {
	switch e.kind {
	case "ok":
		return err == nil
	case "closed":
		return errors.Is(err, freighter.ErrStreamClosed)
	case "ok-or-eof":
		return err == nil || errors.Is(err, freighter.EOF)
	case "closed-or-eof":
		return errors.Is(err, freighter.ErrStreamClosed) || errors.Is(err, freighter.EOF)
	case "msg":
		return err == nil && msgID == e.id && msgText == payload(e.id, big)
	case "eof":
		return errors.Is(err, freighter.EOF)
	case "err":
		if err == nil || errors.Is(err, freighter.EOF) && !errors.Is(e.err, freighter.EOF) {
			return false
		}
		if errors.Is(e.err, ftest.ErrCustom) {
			return errors.Is(err, ftest.ErrCustom)
		}
		if errors.Is(e.err, freighter.ErrStreamClosed) {
			return errors.Is(err, freighter.ErrStreamClosed)
		}
		return strings.Contains(err.Error(), e.err.Error())
	}
	return false
}

func execOrder(t *transport, sc script, order string) (v *viol, hung bool) {
	r := &run{cmds: make(chan srvCmd), results: make(chan opResult, 1), done: make(chan struct{})}
	t.mu.Lock()
	t.cur = r
	t.mu.Unlock()
	ctx, cancel := context.WithCancel(context.Background())
	defer cancel()
	stream, err := t.client.Stream(ctx, t.addr)
	if err != nil {
		return &viol{"stream-open-fails", fmt.Sprintf("Stream(): %v", err)}, false
	}
	m := model{big: sc.big, reqCap: t.reqCap, resCap: t.resCap}
	var log []string
	var pendCli chan error // result of the client's pending Send / CloseSend
	var pendWhat string
	srv := sc.server + "x"
	ci, si := 0, 0
	ret := retKinds[sc.ret].err
	fail := func(fp, what string, e expect, got string) *viol {
		return &viol{fp, fmt.Sprintf("%s: documented %s, transport returned %s\n operations so far: %s", what, e, got, strings.Join(log, " "))}
	}
	var panicked string
	timed := func(f func()) bool {
		done := make(chan struct{})
		go func() {
			defer close(done)
			defer func() {
				if p := recover(); p != nil {
					panicked = fmt.Sprint(p)
				}
			}()
			f()
		}()
		select {
		case <-done:
			return true
		case <-time.After(opLimit):
			return false
		}
	}
	clientOp := func(op byte, final bool) *viol {
		e := m.step('c', op, ret)
		switch op {
		case 'S':
			id := m.sent
			if e.kind == "pending" {
				id = m.sent + 1
				pendCli, pendWhat = make(chan error, 1), fmt.Sprintf("c.Send#%d", id)
				go func(ch chan error) { ch <- stream.Send(Req{ID: id, Message: payload(id, false)}) }(pendCli)
				log = append(log, pendWhat+"=issued(buffer full)")
				return nil
			}
			if e.kind != "ok" {
				id = 99
			}
			var err error
			if !timed(func() { err = stream.Send(Req{ID: id, Message: payload(id, sc.big == id)}) }) {
				hung = true
				return &viol{"operation-never-returns:client-send", "client Send did not return; " + strings.Join(log, " ")}
			}
			log = append(log, fmt.Sprintf("c.Send#%d=%s", id, classify(err)))
			if !matches(e, 0, "", err, false) {
				return fail("client-send-result:"+e.kind, "client Send", e, classify(err))
			}
		case 'C':
			if e.kind == "pending" {
				pendCli, pendWhat = make(chan error, 1), "c.CloseSend"
				go func(ch chan error) { ch <- stream.CloseSend() }(pendCli)
				log = append(log, pendWhat+"=issued(buffer full)")
				return nil
			}
			var err error
			if !timed(func() { err = stream.CloseSend() }) {
				hung = true
				return &viol{"operation-never-returns:client-closesend", "client CloseSend did not return; " + strings.Join(log, " ")}
			}
			log = append(log, "c.CloseSend="+classify(err))
			if err != nil {
				return fail("client-closesend-result", "client CloseSend", e, classify(err))
			}
		case 'R':
			var res Res
			var err error
			if !timed(func() { res, err = stream.Receive() }) {
				hung = true
				return &viol{"operation-never-returns:client-receive:expected-" + e.kind, fmt.Sprintf("client Receive did not return (documented: %s); %s", e, strings.Join(log, " "))}
			}
			log = append(log, fmt.Sprintf("c.Receive=%s#%d", classify(err), res.ID))
			if !matches(e, res.ID, res.Message, err, sc.big == 100+res.ID) {
				kind := e.kind
				if final {
					kind += ":repeated"
				}
				if e.kind == "err" {
					kind += ":" + retKinds[sc.ret].name
				}
				return fail("client-receive-result:"+kind, "client Receive", e, fmt.Sprintf("%s (message #%d, %d bytes)", classify(err), res.ID, len(res.Message)))
			}
		}
		return nil
	}
	serverOp := func(op byte) *viol {
		e := m.step('s', op, ret)
		cmd := srvCmd{op: op}
		if op == 's' {
			id := m.rsent
			if e.kind == "pending" {
				id++
			}
			cmd.msg = Res{ID: id, Message: payload(id, sc.big == 100+id)}
		}
		if op == 'x' {
			cmd.ret = ret
		}
		var got opResult
		if e.kind == "pending" {
			if !timed(func() { r.cmds <- cmd }) {
				hung = true
				return &viol{"operation-never-returns:handler-command", "the handler did not take its next command; " + strings.Join(log, " ")}
			}
			log = append(log, fmt.Sprintf("h.Send#%d=issued(buffer full)", m.rsent+1))
			return nil
		}
		if !timed(func() { r.cmds <- cmd; got = <-r.results }) {
			hung = true
			return &viol{"operation-never-returns:handler-" + string(op) + ":expected-" + e.kind, fmt.Sprintf("handler op %c did not return (documented: %s); %s", op, e, strings.Join(log, " "))}
		}
		switch op {
		case 'r':
			log = append(log, fmt.Sprintf("h.Receive=%s#%d", classify(got.err), got.req.ID))
			if !matches(e, got.req.ID, got.req.Message, got.err, sc.big == got.req.ID) {
				return fail("handler-receive-result:"+e.kind, "handler Receive", e, fmt.Sprintf("%s (message #%d, %d bytes)", classify(got.err), got.req.ID, len(got.req.Message)))
			}
		case 's':
			log = append(log, fmt.Sprintf("h.Send#%d=%s", m.rsent, classify(got.err)))
			if got.err != nil {
				return fail("handler-send-result", "handler Send", e, classify(got.err))
			}
		case 'x':
			log = append(log, "h.return("+retKinds[sc.ret].name+")")
		}
		return nil
	}
	pcheck := func(v *viol) *viol {
		if panicked != "" {
			return &viol{"operation-panics:" + panicked, fmt.Sprintf("an operation panicked: %s\n operations so far: %s", panicked, strings.Join(log, " "))}
		}
		return v
	}
	awaitClient := func() *viol {
		e := m.complete('c')
		var err error
		if !timed(func() { err = <-pendCli }) {
			hung = true
			return &viol{"operation-never-returns:client-blocked-on-full-buffer", pendWhat + " was issued with the request buffer full and did not return after the handler made room; " + strings.Join(log, " ")}
		}
		log = append(log, pendWhat+"="+classify(err))
		if !matches(e, 0, "", err, false) {
			return fail("client-blocked-operation-result", pendWhat, e, classify(err))
		}
		return nil
	}
	awaitServer := func() *viol {
		e := m.complete('s')
		var got opResult
		if !timed(func() { got = <-r.results }) {
			hung = true
			return &viol{"operation-never-returns:handler-blocked-on-full-buffer", "handler Send was issued with the response buffer full and did not return after the client made room; " + strings.Join(log, " ")}
		}
		log = append(log, fmt.Sprintf("h.Send#%d=%s", m.rsent, classify(got.err)))
		if got.err != nil {
			return fail("handler-send-result", "handler Send", e, classify(got.err))
		}
		return nil
	}
	for _, who := range []byte(order) {
		switch {
		case who == 'c' && m.pending('c'):
			v = pcheck(awaitClient())
		case who == 'c':
			v = pcheck(clientOp(sc.client[ci], false))
			ci++
		case m.pending('s'):
			v = pcheck(awaitServer())
		default:
			v = pcheck(serverOp(srv[si]))
			si++
		}
		if v != nil {
			break
		}
	}
	if v == nil {
		// drain: the client receives everything sent before the return, then the terminal
		// result, and the terminal result is stable
		for i := m.rrecvd; i < m.rsent && v == nil; i++ {
			v = pcheck(clientOp('R', false))
		}
		for i := 0; i < 3 && v == nil; i++ {
			v = pcheck(clientOp('R', i > 0))
		}
	}
	if !hung {
		close(r.cmds)
		if !m.closedSend {
			if t.reqCap > 0 {
				go func() { _ = stream.CloseSend() }() // may wait for room that never comes
			} else {
				_ = stream.CloseSend()
			}
		}
		select {
		case <-r.done:
		case <-time.After(opLimit):
			if v == nil {
				v = &viol{"handler-never-finishes", "the handler goroutine did not finish; " + strings.Join(log, " ")}
			}
			hung = true
		}
	}
	return v, hung
}

var idleLen = 2

func main() {
	r := vk.New("C14", "exploration")
	// this harness bounds every call of the code under test with its own limits (and confirms
	// a miss on a dedicated re-run), so the supervisor's stall watchdog only has to see that
	// the process is alive
	go func() {
		for {
			vk.TouchSlots()
			time.Sleep(5 * time.Second)
		}
	}()
	lc, ls := 4, 3
	if !r.Quick() {
		lc, ls = 5, 4
		idleLen = 3
	}
	var scripts []script
	for _, c := range seqs("SCR", lc) {
		if !clientOK(c) {
			continue
		}
		for _, s := range seqs("rs", ls) {
			for k := range retKinds {
				if k >= 3 && len(c)+len(s) > 5 {
					continue
				}
				scripts = append(scripts, script{client: c, server: s, ret: k, big: -1})
			}
		}
	}
	// large payloads on a few shapes: request #1 / response #1 (ids 1 and 101)
	for _, c := range []string{"SR", "SSCRR", "SCR"} {
		for _, s := range []string{"rs", "rrss", "srs"} {
			scripts = append(scripts, script{client: c, server: s, ret: 0, big: 1}, script{client: c, server: s, ret: 1, big: 101})
		}
	}
	mk := map[string]func() (*transport, error){
		"mock":                   func() (*transport, error) { return mockTransport(), nil },
		"mock-1-message-buffers": func() (*transport, error) { return mockTight(), nil },
		"websocket":              wsTransport,
		"websocket-idle-handler": wsIdle,
		"grpc":                   grpcTransport,
	}
	if r.Replay != "" {
		v, err := vk.LoadReplay(r.Replay)
		if err != nil || len(v.Trace) < 3 {
			fmt.Fprintln(os.Stderr, "bad replay", err)
			os.Exit(2)
		}
		t, err := mk[v.Trace[0]]()
		if err != nil {
			r.HarnessError("transport: %v", err)
			r.Finish()
		}
		for _, sc := range scripts {
			if sc.String() == v.Trace[1] {
				if vv, _ := execOrder(t, sc, v.Trace[2]); vv != nil {
					x := vk.Violationf(vv.fp+":"+t.name, "%s", vv.detail)
					x.Trace, x.Scenario = v.Trace, "stream"
					r.Report(x)
				} else {
					vk.NoRepro()
				}
				break
			}
		}
		r.Finish()
	}
	var mu sync.Mutex
	execs, infeasible, skipped := map[string]int{}, 0, 0
	var unconfirmed []string
	outcomes := map[string]bool{}
	var wg sync.WaitGroup
	for _, name := range []string{"mock", "mock-1-message-buffers", "websocket", "websocket-idle-handler", "grpc"} {
		for w := 0; w < 4; w++ {
			wg.Add(1)
			go func(name string, w int) {
				defer wg.Done()
				t, err := mk[name]()
				if err != nil {
					r.HarnessError("transport %s: %v", name, err)
					return
				}
				defer func() {
					if t != nil {
						t.stop()
					}
				}()
				for i, sc := range scripts {
					if i%4 != w {
						continue
					}
					if t.reqCap > 0 && sc.big >= 0 {
						continue
					}
					// the idle handler costs real time per execution: short scripts in which the
					// handler has answered at least once
					if t.idle > 0 && (len(sc.client) > idleLen || len(sc.server) > idleLen || !strings.Contains(sc.server, "s") || sc.big >= 0 || sc.ret > 2 && sc.ret != 7) {
						continue
					}
					os := orders(sc, t.reqCap, t.resCap)
					if len(os) == 0 && name == "mock" {
						mu.Lock()
						infeasible++
						mu.Unlock()
					}
					for _, o := range os {
						if time.Now().After(r.Deadline()) {
							mu.Lock()
							skipped++
							mu.Unlock()
							continue
						}
						vk.Inflight(w, name, []string{name, sc.String(), o})
						v, hung := execOrder(t, sc, o)
						if hung {
							// not returning within the limit is reported only if a dedicated second
							// execution on a fresh transport with four times the limit does not return either
							if nt, err := mk[name](); err == nil {
								t = nt
								confirmMu.Lock()
								opLimit = 120 * time.Second
								v, hung = execOrder(t, sc, o)
								opLimit = 30 * time.Second
								confirmMu.Unlock()
							}
						}
						if v != nil && !hung {
							// what is reported must fail again: two further executions on a fresh
							// transport, at least one of which has to show a violation too
							again := false
							for k := 0; k < 2 && !again; k++ {
								if nt, err := mk[name](); err == nil {
									t.stop()
									t = nt
									if v2, _ := execOrder(t, sc, o); v2 != nil {
										again = true
										v = v2
									}
								}
							}
							if !again {
								mu.Lock()
								unconfirmed = append(unconfirmed, fmt.Sprintf("%s on %s, script %s, interleaving %s", v.fp, name, sc, o))
								mu.Unlock()
								v = nil
							}
						}
						mu.Lock()
						execs[name]++
						outcomes[sc.client+"/"+sc.server+"/"+retKinds[sc.ret].name] = true
						mu.Unlock()
						if v != nil {
							x := vk.Violationf(v.fp+":"+name, "transport %s, script %s, interleaving %s\n%s", name, sc, o, v.detail)
							x.Trace, x.Scenario = []string{name, sc.String(), o}, "stream"
							r.Report(x)
						}
						if hung {
							// the server is stuck in a handler: use a fresh transport
							nt, err := mk[name]()
							if err != nil {
								r.HarnessError("transport %s: %v", name, err)
								return
							}
							t = nt
						}
					}
				}
			}(name, w)
		}
	}
	wg.Wait()
	total := 0
	for _, n := range execs {
		total += n
	}
	r.Set("evaluations", total)
	r.Set("executions_per_transport", execs)
	r.Set("scripts", len(scripts))
	r.Set("scripts_without_feasible_interleaving", infeasible)
	r.Set("distinct_nontrivial", len(outcomes))
	r.Set("exhaustive", skipped == 0)
	if len(unconfirmed) > 0 {
		r.Set("unconfirmed_observations", unconfirmed[:min(len(unconfirmed), 10)])
	}
	r.Set("rule", fmt.Sprintf("scripts: every client op list over {Send, CloseSend, Receive} up to length %d (at most one CloseSend) x every handler op list over {Receive, Send} up to length %d x handler return in {nil, registered custom error, unregistered error, EOF, StreamClosed, EOF wrapped with a message / a stack, wrapped custom error}, plus 18 scripts with a 300 kB request or response; interleavings: every merge in which each Receive is issued after the message it must return, or after the peer's CloseSend / return, has been issued; each executed on a fresh stream of the mock, WebSocket and gRPC transports; after the script the client drains and calls Receive three more times. distinct_nontrivial = distinct scripts executed", lc, ls))
	r.Sample(map[string]string{"script": scripts[len(scripts)/2].String()})
	r.Assume("loopback TCP for WebSocket (fiber) and gRPC; the two sides are sequenced by the harness at operation granularity: timing inside an operation is the Go scheduler's and the kernel's; a Send issued after the handler returned may legitimately return nil or EOF")
	fmt.Printf("C14: scripts=%d executions=%v skipped=%d\n", len(scripts), execs, skipped)
	r.Finish()
}
